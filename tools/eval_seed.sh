#!/bin/bash
# usage: tools/eval_seed.sh <seed dir> <demo file name> [checks...]
# Confirms a seeded change (compiles, suite passes, demo fails with / passes without), then runs the checks against /repo with the patch applied.
sd=$1; demo=$2; shift 2
wt=/tmp/ev-$(basename $sd)
export CARGO_NET_OFFLINE=true CARGO_TARGET_DIR=/tmp/ev-target
git -C /repo worktree remove --force $wt 2>/dev/null
git -C /repo worktree add --detach $wt HEAD -q || exit 2
cp /repo/Cargo.lock $wt/
cp $sd/$demo $wt/tests/
t=${demo%.rs}
cd $wt
echo "--- demo WITHOUT the change"
cargo test --offline --test $t -- --test-threads 1 2>&1 | grep -E "^test result|panicked|error(\[|:)" | head -5
git apply $sd/patch.diff || { echo "PATCH DOES NOT APPLY"; exit 3; }
echo "--- existing suite WITH the change"
cargo nextest run --workspace --no-fail-fast --test-threads 8 --offline -E "not binary($t)" 2>&1 | grep -E "Summary|FAIL|error" | head -5
echo "--- demo WITH the change"
cargo test --offline --test $t -- --test-threads 1 2>&1 | grep -E "^test result|panicked|error(\[|:)|signal" | head -5
cd /verif
git -C /repo worktree remove --force $wt
echo "--- checks with the patch applied to /repo"
git -C /repo apply $sd/patch.diff
for c in "$@"; do VERIF_EVIDENCE_DIR=/tmp/ev-evidence ./verif check $c --tier quick 2>&1 | grep -E "^  rule|\[quick\]" | cut -c1-330 | head -6; done
git -C /repo checkout -- .
git -C /repo status --short | head -3
