#!/bin/bash
# usage: tools/eval_refactor.sh <patch.diff> [tier]   — runs all 17 checks on a scratch copy of /repo with the patch applied; prints non-zero exits
p=$1; tier=${2:-quick}
d=$(mktemp -d /tmp/ipp-rf.XXXX)
cp -r /repo/src /repo/tests /repo/Cargo.toml /repo/Cargo.lock $d/
(cd $d && git init -q . 2>/dev/null; git apply $p 2>&1) || { echo "PATCH DOES NOT APPLY: $p"; rm -rf $d; exit 2; }
export VERIF_REPO=$d VERIF_EVIDENCE_DIR=$d/evidence
bad=0
run() { out=$(/verif/verif check $1 --tier $tier 2>&1); rc=$?; if [ $rc -ne 0 ]; then echo "=== $1 exit $rc"; echo "$out" | grep -E "^  rule" | cut -c1-380 | head -5; fi; }
export -f run; export tier
printf "%s\n" C01 C02 C03 C04 C05 C06 C07 C08 C09 C10 C11 C12 C13 C14 C15 C16 C17 | xargs -P 8 -I{} bash -c 'run {}'
rm -rf $d
