#!/usr/bin/env python3
"""usage: tools/dbg_fn.py <patch.diff|-> <target> <fn path substring> — evaluate one function on a scratch copy (patched) and print
its variants, return values and the interpreter's notes (model fallbacks, summaries). Debugging aid only."""
import sys, os, tempfile, shutil, subprocess
sys.path.insert(0, os.path.join(os.path.dirname(os.path.abspath(__file__)), ".."))
patch, target, sub = sys.argv[1:4]
d = tempfile.mkdtemp(prefix="ipp-dbg-")
try:
    for n in ("src", "tests"):
        shutil.copytree(os.path.join("/repo", n), os.path.join(d, n))
    for n in ("Cargo.toml", "Cargo.lock"):
        shutil.copy(os.path.join("/repo", n), d)
    if patch != "-":
        subprocess.run(["git", "init", "-q", "."], cwd=d)
        subprocess.run(["git", "apply", patch], cwd=d, check=True)
    os.environ["VERIF_REPO"] = d
    from analysis import extract
    from analysis.model import TargetModel
    from analysis.expr import fmt
    ws = extract.Workspace()
    tm = TargetModel(ws.lib_facts(target))
    for b in tm.facts.fn_bodies():
        if sub in b["path"] and b["def_kind"] != "Closure":
            p = b["path"]
            print("==", p)
            try:
                vs = tm.variants(p)
            except Exception as e:
                print("  ERROR", e)
                continue
            m = tm.machines[(p, None)]
            for v in vs[:6]:
                print("  ", v.status, v.note, repr(v.ret)[:600])
            print("  variants:", len(vs))
            for n in m.notes:
                if n[0] != "assert":
                    print("  note", n)
            print("  auto_summaries", sorted(m.auto_summaries))
    ws.close()
finally:
    shutil.rmtree(d, ignore_errors=True)
