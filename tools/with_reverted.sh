#!/bin/bash
# usage: tools/with_reverted.sh <repo fix commit> <property id> [tier]
# Runs a check against a scratch copy of /repo in which one fix commit is reverted (checker validation: the violation must come back).
set -e
c=$1; id=$2; tier=${3:-quick}
d=$(mktemp -d /tmp/ipp-revert.XXXX)
cp -r /repo/src /repo/tests /repo/Cargo.toml /repo/Cargo.lock $d/
git -C /repo show $c -- src | (cd $d && patch -R -p1 -s)
VERIF_REPO=$d VERIF_EVIDENCE_DIR=$d/evidence "$(dirname "$0")/../verif" check $id --tier $tier || true
rm -rf $d
