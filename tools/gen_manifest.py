#!/usr/bin/env python3
"""Regenerates /verif/MANIFEST.json from the table below (kept next to the checks so both change together)."""
import json, os
HERE = os.path.dirname(os.path.dirname(os.path.abspath(__file__)))

CHECKS = {
 "C01": ("abstract interpretation of MIR (bit provenance) + independent x86-64 decode table + page-coverage inequality prover",
         "3.C01", "Decides, for every address pair, that the bytes written at the entry and in the trampoline decode to a branch to exactly the trampoline / the replacement (rel32 under its dominating range guard, abs64 bit-for-bit), that the protection change covers the write under page rounding, that function/replacement roles are right at the public API, on all x86-64 configurations (linux; thorough: macOS, Windows). Static: all inputs, not sampled; does not decide CPU behaviour or torn writes."),
 "C02": ("value-flow over abstract traces of all install roots + drop-order analysis of the injector type",
         "3.C02", "Decides the inductive premises of byte-exact restoration for any install history: save-before-write at the same address with len = bytes written, destructor writes saved[..len] at addr, LIFO teardown (insertion discipline x explicit Drop / drop glue order), every guard retained; on all three architectures (thorough: all 8 targets)."),
 "C03": ("who-may-write enumeration over MIR of every target + classification of every code write in abstract traces",
         "3.C03", "Decides that every raw write construct of the crate is in the allow-list and that every code write of every install/restore path targets the faked entry, the installation's own mapping, or the guard's saved address, with exact copy length and <=16-byte entry writes."),
 "C04": ("lockset/ownership rules over MIR: guard provenance by dependency tracking, construction-site invariants, drop order",
         "3.C04", "Decides the premises under which std::sync::Mutex yields exclusion for every schedule: single static lock taken by every constructor, wrapper always returns its own guard, capability discipline (&mut injector) for every public path to a code write, restore-before-release, guard field untouched."),
 "C05": ("path rules over MIR with explicit unwind edges: destructor panic guards, refusal-before-effects dominance, abort/forget who-may-call",
         "3.C05", "Decides that poison is swallowed, that destructors only panic on the not-panicking edge (or tabulated environment faults), that refusals precede every effect, that no diverging install path has touched the entry, and that nothing in the crate aborts, forgets or terminates on unwind."),
 "C10": ("dependency analysis of the refusal gate + stub decoding (x86-64/A64 tables, ARM stub-function evaluation)",
         "3.C10", "Decides that the forced-boolean install is dominated by a signature-dependent refusal that is an equality on an extracted return type (not an affix test of the whole text) and that the stub is exactly `result := value; return` writing nothing else, on x86-64, AArch64 and ARM."),
 "C11": ("abstract interpretation of the allocator with loop havoc (one abstract iteration sound for all) + interval containment against the entry writer",
         "3.C11", "Decides that only accepted placements are returned, rejected ones are released with their own (ptr,size), exhaustion diverges, the hint advances, and that the allocator's accepted distance interval is contained in what the entry writer encodes (no accepted placement is later refused)."),
 "C12": ("ownership pairing over abstract traces: allocation -> guard fields -> single release; release who-may-call",
         "3.C12", "Decides that the guard records exactly the mapping made by its installation, that its destructor releases it exactly once (never when null), that the guard is not clonable and built at one site, and that the release primitive has no other call site."),
 "C13": ("decoded instruction lists of every patch (three ISA tables) checked against ABI register classes",
         "3.C13", "Decides that only branches, NOPs and scratch-register moves execute between caller and fake and that the registers written are caller-saved non-argument registers, for every root/variant/entry class on x86-64, AArch64, ARM."),
 "C15": ("abstract interpretation of the bit-by-bit A64 emitters + independent A64 decode table + guard intervals",
         "3.C15", "Decides for all 64-bit addresses that the trampoline builds exactly the replacement address (MOVZ/MOVK provenance per 16-bit chunk) and that the entry is B with imm26 under a dominating range guard within imm26 (or ADRP/ADD/BR by provenance on macOS), refusals precede writes, registers within x9..x17."),
 "C16": ("class-abstracted abstract interpretation (3 entry classes) + independent A32/T32 decode with literal-address arithmetic",
         "3.C16", "Decides in each of the three entry classes that the executed prefix is NOP*;LDR Rt,[pc,#imm];BX Rt, that the word the load addresses is the unmodified replacement pointer, that the patch address is the pointer with bit 0 cleared, saved = written = 12, and that Rt is not AAPCS-preserved (known finding: r7/r9)."),
 "C17": ("post-dominance by trace order + range coverage prover per platform primitive (alias table for mach_vm_remap)",
         "3.C17", "Decides that every code write of every install/restore path is followed before return by the target's icache primitive with a covering range and no later write to that range, on every OS configuration."),
}

NOT_YET = {}

CHECKS.update({
 "C06": ("generated per-arm instantiations type-checked by rustc + abstract interpretation of each generated fake's MIR (marker events, guard intervals)",
         "3.C06", "Decides on every `times` arm of fake! (enumerated from rustc's parse) that admission is one atomic fetch_add whose previous value is tested so that admitted <=> prev in [0,N-1], over-budget and non-matching calls diverge before any user piece, the verifier shares counter and budget, the verifier's destructor panics iff counts differ and not unwinding with both numbers, and will_execute stores the verifier before installing. Concurrency is discharged by the single RMW (atomics trusted)."),
 "C07": ("must-pass-through rule over abstract traces of the installation entry point + who-writes enumeration of the counter",
         "3.C07", "Decides that every installation of a counted fake passes through a reset of the verifier's own counter before its first effect (or every arm resets its static), and that the counter has no other writer."),
 "C08": ("compile witnesses per macro arm (rustc accept/reject, meta_variable_misuse lint) + marker-order rules on the MIR of each generated fake",
         "3.C08", "Decides for every fake! arm found in the source at check time that a well-typed use compiles, expands from its own arm, obeys the common meaning (when first / rejected call effect-free / assign before result / returns evaluated per call with the arguments / budget), generates the declared fn kind and the right verifier kind."),
 "C09": ("gate-shape rule on abstract traces of the checked install roots + recorded-type rule on every macro arm's MIR + compile-fail witness with twin",
         "3.C09", "Decides that the checked installs are on the equal edge of a whole-string equality between recorded and expected signature placed before any effect, that every checked macro arm records type_name of the declared fn-pointer type and the matching pointer, that unchecked forms use the empty string on both sides, and that a wrong async output type is a compile error (E0271). type_name injectivity on fn-pointer types is assumed."),
 "C14": ("resolved-callee rule (reified <F as Future>::poll) + return-value rule on the generated poll fn's MIR + compile-fail witness",
         "3.C14", "Decides that exactly `<F as Future>::poll` of the pinned future's type is what gets patched, that the generated replacement returns Poll::Ready(freshly evaluated value) on its only path, and that output-type agreement is enforced by rustc; isolation/restoration are C03/C02."),
})


def main():
    props = [json.loads(l) for l in open(os.path.join(HERE, "properties.jsonl"))]
    checks = []
    for pid, (tech, ref, text) in sorted(CHECKS.items()):
        checks.append({
            "property_id": pid,
            "quick_cmd": "./verif check %s --tier quick" % pid,
            "thorough_cmd": "./verif check %s --tier thorough" % pid,
            "evidence_file": "evidence/%s.json" % pid,
            "replay_cmd_template": "./verif explain {path}",
            "engine": "mirfacts+analysis",
            "level_claimed": {"category": "other", "text": text + " Further necessary conditions were added during the build (mostly another property's rule repeated under this property's id after a seeded change showed that this check was silent); the complete, current list is the `coverage.explanation` of the evidence file and DESIGN.md section 3 'Rules added'. Level 'other': static analysis — each rule instance is an obligation decided on the type-checked MIR of the current tree for all inputs/paths/configurations, sound relative to the stated trusted base; it is neither testing nor a machine-checked proof.", "design_ref": "DESIGN.md section " + ref},
            "level_note": "Trusted: rustc MIR construction/drop elaboration/trait resolution; the models of ~70 std functions (analysis/models.py); the ISA decode tables (analysis/isa.py); OS primitives behave as documented. No repository code is executed.",
            "technique": tech,
        })
    m = {
        "version": 1,
        "setup_cmd": "./verif setup",
        "hooks": {"guard": "injectorpp_verif", "enable": "none needed: the driver observes the unmodified crate (no hook commits; --cfg injectorpp_verif is never set)",
                  "baseline_off_cmd": "cd /repo && cargo nextest run --workspace --no-fail-fast --test-threads 8 --offline",
                  "source_commits": [], "add_only": True},
        "engines": [
            {"name": "mirfacts", "path": "driver/", "serves_properties": sorted(CHECKS), "kind_free_text": "rustc_private driver exporting resolved MIR / ADT / impl / macro facts per target (8 targets via miri-built sysroots; the host triple also as `@release`: debug assertions and overflow checks off)"},
            {"name": "analysis", "path": "analysis/", "serves_properties": sorted(CHECKS), "kind_free_text": "python: abstract interpreter over MIR (trace partitioning, bit provenance), CFG/dominators, ISA decode tables, bounds prover, per-property rules"},
        ],
        "checks": checks,
        "notes": "Static analysis only (see DESIGN.md). Every check analyses the host triple in two profiles (dev and `@release`), most of them further targets; the macro checks C06-C09 compile their generated harness in both profiles. Genuine defects found and repaired are listed in known_findings.json (status fixed); open findings are reported as KNOWN-FINDING lines.",
        "not_applicable": [{"property_id": p, "reason": r} for p, r in sorted(NOT_YET.items()) if p not in CHECKS],
    }
    json.dump(m, open(os.path.join(HERE, "MANIFEST.json"), "w"), indent=1)
    print("wrote MANIFEST.json with %d checks, %d not_applicable" % (len(checks), len(m["not_applicable"])))


if __name__ == "__main__":
    main()
