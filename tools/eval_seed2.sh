#!/bin/bash
# usage: tools/eval_seed2.sh <seed dir> <demo file name> [checks...]
# Like eval_seed.sh, but the checks run on a scratch copy of /repo (VERIF_REPO) instead of patching /repo itself — for use while
# another job reads /repo. Confirms the seed first (worktree: demo passes without / fails with; 71 tests pass with).
sd=$1; demo=$2; shift 2
wt=/tmp/ev2-$(basename $sd)
export CARGO_NET_OFFLINE=true CARGO_TARGET_DIR=/tmp/ev-target
git -C /repo worktree remove --force $wt 2>/dev/null
git -C /repo worktree add --detach $wt HEAD -q || exit 2
cp /repo/Cargo.lock $wt/
cp $sd/$demo $wt/tests/
t=${demo%.rs}
cd $wt
echo "--- demo WITHOUT the change"
cargo test --offline --test $t -- --test-threads 1 2>&1 | grep -E "^test result|panicked|error(\[|:)" | head -5
git apply $sd/patch.diff || { echo "PATCH DOES NOT APPLY"; exit 3; }
echo "--- existing suite WITH the change"
cargo nextest run --workspace --no-fail-fast --test-threads 8 --offline -E "not binary($t)" 2>&1 | grep -E "Summary|FAIL|error" | head -5
echo "--- demo WITH the change"
cargo test --offline --test $t -- --test-threads 1 2>&1 | grep -E "^test result|panicked|error(\[|:)|signal" | head -5
cd /verif
git -C /repo worktree remove --force $wt
echo "--- checks on a scratch copy with the patch"
d=$(mktemp -d /tmp/ipp-sd.XXXX)
cp -r /repo/src /repo/tests /repo/Cargo.toml /repo/Cargo.lock $d/
(cd $d && git init -q . 2>/dev/null; git apply $sd/patch.diff)
for c in "$@"; do VERIF_REPO=$d VERIF_EVIDENCE_DIR=$d/evidence ./verif check $c --tier quick 2>&1 | grep -E "^  rule|\[quick\]" | cut -c1-330 | awk 'NR<=5 || /\[quick\]/'; done
rm -rf $d
