#!/usr/bin/env python3
"""usage: tools/sweep_seeds.py [--jobs N] [--only PREFIX]
For every seeded change under seeded/<id>/ : apply its patch.diff to a scratch copy of /repo and run the check of the property the
change was aimed at (quick tier; thorough if quick is silent). Writes seeded/SWEEP.md: which tier reported it and under which rules.
Validation aid for the checker (DESIGN.md section 6); decides no property and never touches /repo."""
import json, os, re, shutil, subprocess, sys, tempfile
from concurrent.futures import ThreadPoolExecutor

VERIF = os.path.dirname(os.path.dirname(os.path.abspath(__file__)))
REPO = os.environ.get("VERIF_REPO_BASE", "/repo")


def one(sid):
    d = os.path.join(VERIF, "seeded", sid)
    meta = json.load(open(os.path.join(d, "meta.json")))
    prop = meta["property"]
    tmp = tempfile.mkdtemp(prefix="ipp-sweep-")
    try:
        for n in ("src", "tests"):
            shutil.copytree(os.path.join(REPO, n), os.path.join(tmp, n))
        for n in ("Cargo.toml", "Cargo.lock"):
            shutil.copy(os.path.join(REPO, n), tmp)
        subprocess.run(["git", "init", "-q", "."], cwd=tmp)
        r = subprocess.run(["git", "apply", os.path.join(d, "patch.diff")], cwd=tmp, stdout=subprocess.PIPE, stderr=subprocess.STDOUT, text=True)
        if r.returncode != 0:
            return sid, prop, "PATCH-DOES-NOT-APPLY", []
        env = dict(os.environ, VERIF_REPO=tmp, VERIF_EVIDENCE_DIR=os.path.join(tmp, "evidence"))
        for tier in ("quick", "thorough"):
            r = subprocess.run([os.path.join(VERIF, "verif"), "check", prop, "--tier", tier], env=env, stdout=subprocess.PIPE, stderr=subprocess.STDOUT, text=True)
            rules = sorted(set(re.findall(r"^  rule (\S+) ", r.stdout, re.M)))
            if r.returncode != 0:
                return sid, prop, tier, rules
        return sid, prop, "silent", []
    finally:
        shutil.rmtree(tmp, ignore_errors=True)


def main(argv):
    jobs = int(argv[argv.index("--jobs") + 1]) if "--jobs" in argv else 4
    only = argv[argv.index("--only") + 1] if "--only" in argv else ""
    ids = sorted(x for x in os.listdir(os.path.join(VERIF, "seeded")) if os.path.exists(os.path.join(VERIF, "seeded", x, "meta.json")) and x.startswith(only))
    rows = []
    with ThreadPoolExecutor(max_workers=jobs) as ex:
        for sid, prop, verdict, rules in ex.map(one, ids):
            print("%-6s %-4s %-9s %s" % (sid, prop, verdict, ",".join(rules)), flush=True)
            rows.append((sid, prop, verdict, rules))
    if not only:
        with open(os.path.join(VERIF, "seeded", "SWEEP.md"), "w") as f:
            f.write("# Sweep of the seeded changes against the check of the property each was aimed at\n\n"
                    "Written by `tools/sweep_seeds.py` (patch applied to a scratch copy of /repo, `./verif check <property>`; quick tier first,\n"
                    "thorough if quick is silent). `silent` = the property's own check does not report the change: see the seed's `meta.json`\n"
                    "(`caught_by`) and the table in DESIGN.md section 6 for the reason (not decided by design, or reported by another property's check).\n\n"
                    "| seed | property | reported in tier | rules |\n|---|---|---|---|\n")
            for sid, prop, verdict, rules in rows:
                f.write("| %s | %s | %s | %s |\n" % (sid, prop, verdict, ", ".join(rules)))
            n_s = sum(1 for r in rows if r[2] == "silent")
            f.write("\n%d seeds; %d reported by the own property's check (quick: %d, thorough only: %d), %d silent.\n" % (
                len(rows), len(rows) - n_s, sum(1 for r in rows if r[2] == "quick"), sum(1 for r in rows if r[2] == "thorough"), n_s))
    return 0


if __name__ == "__main__":
    sys.exit(main(sys.argv[1:]))
