//! Positive controls: one instance of every construct a zero-count rule forbids. This crate is never run; it is
//! compiled through the same mirfacts driver on every check invocation and each rule must fire on it, otherwise the
//! check reports itself as blind (DESIGN 2.4).
#![allow(unused, clippy::all)]
use std::sync::{Mutex, MutexGuard};

static M: Mutex<()> = Mutex::new(());

pub struct Res(pub *mut u8);

impl Drop for Res {
    fn drop(&mut self) {
        if self.0.is_null() {
            panic!("unguarded panic in a destructor");
        }
    }
}

pub struct Holder {
    g: MutexGuard<'static, ()>,
    v: Vec<Res>,
}

pub fn forget_it(r: Res) {
    std::mem::forget(r)
}

pub fn manually(r: Res) -> std::mem::ManuallyDrop<Res> {
    std::mem::ManuallyDrop::new(r)
}

pub fn abort_it() {
    std::process::abort()
}

pub fn catch() {
    let _ = std::panic::catch_unwind(|| ());
}

pub fn try_it() -> bool {
    M.try_lock().is_ok()
}

pub fn unwrap_lock() -> Holder {
    Holder { g: M.lock().unwrap(), v: Vec::new() }
}

pub fn steal(h: Holder) -> MutexGuard<'static, ()> {
    h.g
}

pub unsafe fn raw_store(p: *mut u8) {
    *p = 1;
}

pub unsafe fn raw_write(p: *mut u8) {
    std::ptr::write(p, 1);
    std::ptr::write_bytes(p, 0, 4);
}

extern "C" {
    fn getpid() -> i32;
}

pub fn ffi() -> i32 {
    unsafe { getpid() }
}

fn helper() {
    if std::env::args().count() > 100 {
        panic!("x")
    }
}

pub extern "C" fn no_unwind() {
    helper()
}

pub fn indirect(f: fn()) {
    f()
}

pub unsafe fn asm_other() {
    #[cfg(target_arch = "x86_64")]
    core::arch::asm!("nop");
}

pub fn prune(h: &mut Holder) {
    h.v.retain(|r| !r.0.is_null());
}

pub fn keep(h: &mut Holder, r: Res) {
    h.v.push(r);
}
