"""Abstract interpreter for MIR bodies (DESIGN 2.2: inline + valueflow + absint in one engine).

Domain: expression trees over symbolic leaves with bit provenance (analysis/expr.py) for scalars, structured
values for aggregates, references into tracked locals, and models for the closed set of std functions the
crate calls (analysis/models.py). Control flow:

  * a branch on a constant follows the taken edge (const-pruning);
  * a branch on a non-constant condition is *if-converted*: both arms are evaluated up to the immediate
    post-dominator and merged into gamma-values when neither arm has an external effect or diverges;
    otherwise the outcomes are kept apart as guarded variants (trace partitioning), each carrying the list
    of branch decisions (its guard);
  * loops are followed only while their exit test is constant in the domain (fixed-size arrays, constant
    ranges); any other loop makes the enclosing crate-local function a *summary* (an opaque event whose
    result is a fresh leaf) – the allocator scan loop is the one instance and has its own CFG rules (C11).

Crate-local callees are entered (inlining by interpretation), so rules are insensitive to helper
extraction. External calls, FFI calls, raw copies, stores through unknown pointers, inline asm, drops and
divergence are recorded as *events* in program order per variant. No leaf is ever given a concrete value.
"""
import copy
from .expr import *
from . import cfg as cfgmod


class Unsupported(Exception):
    pass


# ------------------------------------------------------------------------------------------------ values

class Cell:
    __slots__ = ("val", "id", "name")
    _n = [0]

    def __init__(self, val, name=None):
        self.val = val
        Cell._n[0] += 1
        self.id = Cell._n[0]
        self.name = name


class Ref:
    """Reference / raw pointer to tracked memory: a cell plus a projection path."""
    __slots__ = ("cell", "path", "mut")

    def __init__(self, cell, path=(), mut=False):
        self.cell = cell
        self.path = tuple(path)
        self.mut = mut

    def __repr__(self):
        return "Ref(#%d%s)" % (self.cell.id, "".join("." + str(p[1]) for p in self.path))


class SliceRef:
    """&[T] / &mut [T] window into a tracked array or concrete Vec: elements base[start .. start+n]."""
    __slots__ = ("base", "start", "n", "mut")

    def __init__(self, base, start, n, mut=False):
        self.base = base
        self.start = start
        self.n = n
        self.mut = mut

    def __repr__(self):
        return "SliceRef(%r,%d,%d)" % (self.base, self.start, self.n)


class SymSlice:
    """Slice of memory that is not tracked element-wise: content expression, address, length."""
    __slots__ = ("content", "ptr", "len")

    def __init__(self, content, ptr, length):
        self.content = content
        self.ptr = ptr
        self.len = length

    def __deepcopy__(self, memo):
        return self

    def __repr__(self):
        return "SymSlice(%s, len=%s)" % (fmt(self.content), fmt(self.len.e))


class RawSlice:
    """&mut [u8] made by slice::from_raw_parts_mut over untracked memory: the only thing the models let it do is receive a
    copy_from_slice (= a raw copy to `ptr`); every other use fails closed."""
    __slots__ = ("ptr", "len")

    def __init__(self, ptr, length):
        self.ptr = ptr
        self.len = length

    def __deepcopy__(self, memo):
        return self

    def __repr__(self):
        return "RawSlice(%s, len=%s)" % (fmt(self.ptr.e, 3), fmt(self.len.e))


class Adt:
    __slots__ = ("path", "variant", "vname", "fields", "fnames")

    def __init__(self, path, variant, vname, fields, fnames=None):
        self.path = path
        self.variant = variant
        self.vname = vname
        self.fields = list(fields)
        self.fnames = fnames

    def field(self, name):
        return self.fields[self.fnames.index(name)]

    def __repr__(self):
        return "%s::%s{%s}" % (self.path, self.vname, ", ".join(repr(f) for f in self.fields))


class Arr:
    __slots__ = ("elems",)

    def __init__(self, elems):
        self.elems = list(elems)

    def __repr__(self):
        return "Arr%r" % (self.elems,)


class Tup:
    __slots__ = ("elems",)

    def __init__(self, elems):
        self.elems = list(elems)

    def __repr__(self):
        return "Tup%r" % (self.elems,)


class VecV:
    """Vec<T>: either element-wise (elems list) or symbolic (content expression + length Int)."""
    __slots__ = ("elems", "content", "len", "cap")

    def __init__(self, elems=None, content=None, length=None, cap=None):
        self.elems = elems
        self.content = content
        self.len = length
        self.cap = cap

    def length(self, ptr_bits):
        if self.elems is not None:
            return int_const(len(self.elems), ptr_bits)
        return self.len

    def __repr__(self):
        if self.elems is not None:
            return "Vec%r" % (self.elems,)
        return "Vec<%s; len=%s>" % (fmt(self.content), fmt(self.len.e))


def fn_key(v):
    """(path,) or (path, const-generic arguments): two instances of one generic function that differ in a const argument are two
    functions with two addresses (return_const::<true> / return_const::<false>)."""
    cs = tuple(str(g[1]) for g in (v.gargs or ()) if isinstance(g, tuple) and len(g) == 2 and g[0] == "const")
    return (v.path, cs) if cs else (v.path,)


class FnVal:
    __slots__ = ("path", "gargs", "kind")

    def __init__(self, path, gargs=(), kind="fn"):
        self.path = path
        self.gargs = gargs
        self.kind = kind

    def __deepcopy__(self, memo):
        return self

    def __repr__(self):
        return "fn<%s>" % self.path


class ClosureV:
    __slots__ = ("path", "captures")

    def __init__(self, path, captures):
        self.path = path
        self.captures = list(captures)

    def __repr__(self):
        return "closure<%s>" % self.path


class Opaque:
    """A value the analysis does not look into: expression + static type."""
    __slots__ = ("e", "ty")

    def __init__(self, e, ty=None):
        self.e = e
        self.ty = ty

    def __deepcopy__(self, memo):
        return self

    def __repr__(self):
        return "Opaque(%s)" % fmt(self.e)


class IterV:
    """Iterator state (slice iter / iter_mut / enumerate / range)."""
    __slots__ = ("kind", "a", "b", "c")

    def __init__(self, kind, a=None, b=None, c=None):
        self.kind = kind
        self.a = a
        self.b = b
        self.c = c

    def __repr__(self):
        return "Iter(%s,%r,%r,%r)" % (self.kind, self.a, self.b, self.c)


class _Unit:
    def __repr__(self):
        return "()"

    def __deepcopy__(self, memo):
        return self


UNIT = _Unit()


class _Uninit:
    def __repr__(self):
        return "<uninit>"

    def __deepcopy__(self, memo):
        return self


UNINIT = _Uninit()


class Fork:
    """Returned by a model: list of (decision (E cond, value), result value | DIVERGE)."""

    def __init__(self, cond, outcomes):
        self.cond = cond
        self.outcomes = outcomes


class _Diverge:
    pass


DIVERGE = _Diverge()


# ------------------------------------------------------------------------------------------------ types

def int_info(ty, ptr_bits):
    k = ty["k"]
    if k in ("int", "uint"):
        n = ty["name"]
        w = ptr_bits if n in ("isize", "usize") else int(n[1:])
        return w, k == "int"
    if k == "bool":
        return 1, False
    if k == "char":
        return 32, False
    if k in ("ptr", "fnptr"):
        if k == "ptr" and ty["inner"]["k"] in ("slice", "str", "dyn"):
            return None
        return ptr_bits, False
    return None


def is_unit_ty(ty):
    return ty["k"] == "tuple" and not ty["elems"]


# ------------------------------------------------------------------------------------------------ state

class Frame:
    __slots__ = ("body", "locals", "block", "dest", "target", "gmap", "fn", "visits")

    def __init__(self, body, nlocals):
        self.body = body
        self.locals = [Cell(UNINIT) for _ in range(nlocals)]
        self.block = 0
        self.dest = None      # (cell, path) in the caller or None
        self.target = None
        self.gmap = {}
        self.fn = body["path"]
        self.visits = {}


class Event:
    __slots__ = ("kind", "name", "args", "ret", "span", "stack", "idx", "extra")

    def __init__(self, kind, name, args, ret, span, stack, idx, extra=None):
        self.kind = kind
        self.name = name
        self.args = args
        self.ret = ret
        self.span = span
        self.stack = stack
        self.idx = idx
        self.extra = extra or {}

    def __deepcopy__(self, memo):
        return self

    def where(self):
        sp = self.span
        if sp:
            if sp.get("callsite") and not sp["file"].startswith("src/"):
                sp = sp["callsite"]
            return "%s:%d" % (sp["file"], sp["line"])
        return "?"

    def __repr__(self):
        return "<%s %s(%s) -> %r @%s>" % (self.kind, self.name, ", ".join(repr(a) for a in self.args), self.ret, self.where())


class State:
    def __init__(self):
        self.frames = []
        self.trace = []
        self.decisions = []     # (cond E, value, span)
        self.status = "running"
        self.ret = None
        self.note = None
        self.steps = 0
        self.loops_entered = frozenset()
        self.constructed = []   # (adt path, trace length at that point, span, value) for every value of a crate type with a destructor

    def clone(self):
        c = State.__new__(State)
        memo = {}
        c.frames = copy.deepcopy(self.frames, memo)
        c.trace = list(self.trace)
        c.decisions = list(self.decisions)
        c.status = self.status
        c.ret = copy.deepcopy(self.ret, memo)
        c.note = self.note
        c.steps = self.steps
        c.loops_entered = self.loops_entered
        c.constructed = list(self.constructed)
        return c

    def stack(self):
        return tuple(f.fn for f in self.frames)


# -------------------------------------------------------------------------------------------- value access

def get_path(val, path):
    for step in path:
        k, i = step
        if k == "f":
            if isinstance(val, Adt):
                val = val.fields[i]
            elif isinstance(val, (Tup,)):
                val = val.elems[i]
            elif isinstance(val, ClosureV):
                val = val.captures[i]
            else:
                raise Unsupported("field %r of %r" % (i, val))
        elif k == "i":
            if isinstance(val, Arr):
                val = val.elems[i]
            elif isinstance(val, VecV) and val.elems is not None:
                val = val.elems[i]
            else:
                raise Unsupported("index %r of %r" % (i, val))
        elif k == "v":
            if isinstance(val, Adt) and val.variant != i:
                raise Unsupported("downcast of %r to variant %d" % (val, i))
        else:
            raise Unsupported("path step %r" % (step,))
    return val


def set_path(val, path, new):
    if not path:
        return new
    (k, i), rest = path[0], path[1:]
    if k == "f":
        if isinstance(val, Adt):
            f = list(val.fields)
            f[i] = set_path(f[i], rest, new)
            return Adt(val.path, val.variant, val.vname, f, val.fnames)
        if isinstance(val, Tup):
            f = list(val.elems)
            f[i] = set_path(f[i], rest, new)
            return Tup(f)
        if val is UNINIT:
            raise Unsupported("field write into uninitialised aggregate")
        raise Unsupported("field write into %r" % (val,))
    if k == "i":
        if isinstance(val, Arr):
            f = list(val.elems)
            f[i] = set_path(f[i], rest, new)
            return Arr(f)
        if isinstance(val, VecV) and val.elems is not None:
            f = list(val.elems)
            f[i] = set_path(f[i], rest, new)
            return VecV(elems=f, cap=val.cap)
        raise Unsupported("index write into %r" % (val,))
    if k == "v":
        return set_path(val, rest, new)
    raise Unsupported("path step %r" % (path[0],))


class LV:
    """Resolved place: tracked (cell+path), a slice window, or symbolic (expression of the location)."""
    __slots__ = ("cell", "path", "slice", "sym", "ty", "addr")

    def __init__(self, cell=None, path=(), slice_=None, sym=None, ty=None, addr=None):
        self.cell = cell
        self.path = tuple(path)
        self.slice = slice_
        self.sym = sym
        self.ty = ty
        self.addr = addr


# ------------------------------------------------------------------------------------------------ machine

class Machine:
    MAX_STEPS = 400000
    LOOP_LIMIT = 2

    def __init__(self, facts, summaries=(), models=None, stop_at=(), on_event=None, havoc_loops=False, split_on=(), havoc_in=()):
        from . import models as modelmod
        self.facts = facts
        self.ptr_bits = facts.ptr_bits
        self.summaries = set(summaries)
        self.auto_summaries = set()
        self.models = modelmod.MODELS if models is None else models
        self.stop_at = set(stop_at)
        self.cfgs = {}
        self.const_cache = {}
        self.ev_counter = [0]
        self.notes = []
        self.entered = set()
        self.havoc_loops = havoc_loops
        self.havoc_in = frozenset(havoc_in)      # callees whose loops are havocked too when entered inline (a generic scanner around a closure)
        self.loop_infos = {}
        self.loop_info = None
        self.split_on = frozenset(split_on)      # branch conditions that must stay separate paths (no if-conversion)
        self.drop_adts = {f["impl_of"]["self_ty"].get("path") for f in facts.fns.values()
                          if f.get("impl_of") and f["impl_of"].get("trait") == "std::ops::Drop"}

    # ---------------------------------------------------------------- symbolic values by type
    def sym_value(self, e, ty, depth=0):
        """A fully symbolic value of static type `ty` named by expression `e` (E leaf/field tree)."""
        ii = int_info(ty, self.ptr_bits)
        if ii:
            w, s = ii
            ee = e if e.w == w else E(e.op, e.args, w)
            return Int(w, s, ee)
        k = ty["k"]
        if is_unit_ty(ty):
            return UNIT
        if k == "tuple":
            return Tup([self.sym_value(E("field", (e, str(i))), t, depth + 1) for i, t in enumerate(ty["elems"])])
        if k == "adt":
            p = ty["path"]
            if p == "std::ptr::NonNull":
                return Adt(p, 0, "NonNull", [self.sym_value(e, {"k": "ptr", "mut": False, "inner": {"k": "tuple", "elems": [], "s": "()"}, "s": "*const ()"}, depth + 1)], ["pointer"])
            if p == "std::vec::Vec" and depth < 6:
                return VecV(content=E("vec_content", (e,)), length=Int(self.ptr_bits, False, E("vec_len", (e,), self.ptr_bits)))
            adt = self.facts.adts.get(p)
            if adt and len(adt["variants"]) == 1 and depth < 6 and not ty.get("args_has_param"):
                v = adt["variants"][0]
                fs = [self.sym_value(E("field", (e, f["name"])), f["ty"], depth + 1) for f in v["fields"]]
                return Adt(p, 0, v["name"], fs, [f["name"] for f in v["fields"]])
            return Opaque(e, ty)
        if k == "ref":
            inner = ty["inner"]
            if inner["k"] == "slice":
                return SymSlice(E("slice_content", (e,)), Int(self.ptr_bits, False, E("slice_ptr", (e,), self.ptr_bits)),
                                Int(self.ptr_bits, False, E("slice_len", (e,), self.ptr_bits)))
            if inner["k"] == "str":
                return Opaque(e, ty)
            if inner["k"] in ("adt", "tuple", "array") and depth < 6:
                if inner["k"] == "adt" and inner["path"] not in self.facts.adts and inner["path"] not in ("std::vec::Vec", "std::ptr::NonNull"):
                    return Opaque(e, ty)
                c = Cell(self.sym_value(E("deref", (e,)), inner, depth + 1), name=fmt(e))
                return Ref(c, (), ty["mut"])
            return Opaque(e, ty)
        if k == "array" and isinstance(ty["len"], int) and ty["len"] <= 64:
            return Arr([self.sym_value(E("elem", (e, i)), ty["elem"], depth + 1) for i in range(ty["len"])])
        return Opaque(e, ty)

    # ---------------------------------------------------------------- cfg helpers
    def cfg(self, body):
        key = (body["path"], body["promoted"])
        if key not in self.cfgs:
            self.cfgs[key] = cfgmod.CFG(body)
        return self.cfgs[key]

    # ---------------------------------------------------------------- running
    def body_of(self, path):
        b = self.facts.body(path)
        if b is None:
            from . import models as modelmod
            b = modelmod.SHIMS.get(path)
        return b

    def start(self, path, args, gmap=None):
        body = self.body_of(path)
        if body is None:
            raise Unsupported("no body for " + path)
        st = State()
        fr = Frame(body, len(body["locals"]))
        if len(args) != body["arg_count"]:
            raise Unsupported("arg count mismatch for %s" % path)
        for i, a in enumerate(args):
            fr.locals[1 + i].val = a
        fr.gmap = dict(gmap or {})
        st.frames.append(fr)
        self.entered.add(path)
        return st

    def run_fn(self, path, args, gmap=None):
        """Evaluate crate-local function `path` on abstract arguments; returns the list of guarded variants."""
        while True:
            st = self.start(path, copy.deepcopy(args), gmap)
            try:
                return self.run(st, None)
            except _NeedSummary as ns:
                if ns.fn == path:
                    raise Unsupported("root function %s contains a loop with a non-constant exit test" % path)
                self.auto_summaries.add(ns.fn)

    def run(self, st, stop):
        while True:
            if st.status != "running":
                return [st]
            fr = st.frames[-1]
            if stop is not None and len(st.frames) == stop[0] and fr.block == stop[1]:
                return [st]
            if stop is not None and len(st.frames) < stop[0]:
                return [st]
            if self.havoc_loops and (len(st.frames) == 1 or fr.fn in self.havoc_in):
                root_ = len(st.frames) == 1
                if root_:
                    if self.loop_info is None:
                        self.loop_info = self.compute_loop_info(fr.body)
                    linfo = self.loop_info
                else:
                    if fr.fn not in self.loop_infos:
                        self.loop_infos[fr.fn] = self.compute_loop_info(fr.body)
                    linfo = self.loop_infos[fr.fn]
                lkey = fr.block if root_ else (fr.fn, fr.block)
                if fr.block in linfo:
                    if lkey in st.loops_entered:
                        st.status = "backedge"
                        st.note = "back edge to bb%d" % fr.block
                        return [st]
                    st.loops_entered = st.loops_entered | {lkey}
                    names = {d["place"]["l"]: d["name"] for d in fr.body["debug"] if not d["place"]["p"]}
                    for l in sorted(linfo[fr.block]):
                        cur_ = fr.locals[l].val
                        if isinstance(cur_, ClosureV):
                            # a closure that is only borrowed in the loop: if its body takes `&self` (an Fn closure) the loop cannot change
                            # what it is or what it captured, so it stays the closure it was
                            cb_ = self.facts.body(cur_.path)
                            t1_ = cb_["locals"][1]["ty"] if cb_ and len(cb_["locals"]) > 1 else None
                            if t1_ and t1_.get("k") == "ref" and not t1_.get("mut"):
                                continue
                            if cb_ and not closure_writes_its_captures(cb_):
                                continue          # declared FnMut only because the receiving parameter asks for FnMut
                        ty = fr.body["locals"][l]["ty"]
                        fr.locals[l].val = self.sym_value(E("loopvar", (names.get(l, "_%d" % l),)), ty)
            st.steps += 1
            if st.steps > self.MAX_STEPS:
                raise Unsupported("step limit exceeded in %s" % fr.fn)
            br = self.exec_block(st)
            if br is None:
                continue
            cond, arms, span = br          # arms: list of (value or ('otherwise', excluded), target)
            depth = len(st.frames)
            branch_block = fr.block
            ipd = self.cfg(fr.body).ipdom_normal(fr.block)
            sub = (depth, ipd) if ipd is not None else None
            results = []
            for val, tgt in arms:
                c = st.clone()
                c.decisions.append((cond, val, span, fr.fn, len(st.trace)))
                if isinstance(tgt, tuple):
                    _, term, value = tgt
                    cf = c.frames[-1]
                    if value is DIVERGE:
                        c.status = "diverged"
                        c.note = "model"
                    else:
                        self.finish_call(c, cf, term, self.lv(c, cf, term["dest"]), copy.deepcopy(value))
                else:
                    c.frames[-1].block = tgt
                results.append(self.run(c, sub))
            if sub is not None and all(len(r) == 1 for r in results):
                ends = [r[0] for r in results]
                if all(s.status == "running" and len(s.frames) == depth and s.frames[-1].block == ipd and
                       len(s.trace) == len(st.trace) and len(s.constructed) == len(st.constructed) for s in ends) \
                        and not self.must_split(cond, arms):
                    merged = self.merge(st, cond, arms, ends)
                    if merged is not None:
                        st = merged
                        # an if-converted branch is not a fork: it does not count towards the unbounded-loop detector
                        v_ = st.frames[-1].visits
                        if v_.get(branch_block):
                            v_[branch_block] -= 1
                        continue
            out = []
            for r in results:
                for s in r:
                    out.extend(self.run(s, stop))
            return out

    def must_split(self, cond, arms):
        if not self.split_on:
            return False
        forms = [cond, not_(cond)]
        for v, _ in arms:
            if isinstance(v, int) and cond.w:
                forms.append(cmpop("eq", cond, const(v, cond.w)))
                forms.append(cmpop("ne", cond, const(v, cond.w)))
        return any(f in self.split_on for f in forms)

    def compute_loop_info(self, body):
        """header block -> set of locals that may be assigned inside the natural loop (havocked on entry)."""
        g = self.cfg(body)
        info = {}
        for a, h in g.back_edges():
            blocks = {h, a}
            stack = [a]
            while stack:
                x = stack.pop()
                if x == h:
                    continue
                for p in g.pred[x]:
                    if p not in blocks:
                        blocks.add(p)
                        stack.append(p)
            assigned = info.setdefault(h, set())
            for b in blocks:
                blk = body["blocks"][b]
                for stmt in blk["stmts"]:
                    if stmt["k"] == "assign":
                        assigned.add(stmt["place"]["l"])
                        rv = stmt["rv"]
                        if rv["k"] in ("ref", "rawptr") and rv["mut"]:
                            assigned.add(rv["place"]["l"])
                t = blk["term"]
                if t["k"] == "call":
                    assigned.add(t["dest"]["l"])
        return info

    # ---------------------------------------------------------------- merging (if-conversion)
    def merge(self, base, cond, arms, ends):
        if len(ends) != 2:
            return None
        # condition under which ends[0] was taken
        (v0, _), (v1, _) = arms
        if cond.w == 1 and v0 in (0, 1) and not isinstance(v1, int):
            c0 = cond if v0 == 1 else not_(cond)
        elif cond.w == 1 and v0 in (0, 1):
            c0 = cond if v0 == 1 else not_(cond)
        else:
            if isinstance(v0, int):
                c0 = cmpop("eq", cond, const(v0, cond.w))
            else:
                return None
        a, b = ends
        try:
            ca_, cb_ = reachable_cells(a), reachable_cells(b)
            for cid, ca in ca_.items():
                cb = cb_.get(cid)
                if cb is not None:
                    ca.val = self.merge_val(c0, ca.val, cb.val)
        except _NoMerge:
            return None
        a.decisions = list(base.decisions)
        a.steps = max(a.steps, b.steps)
        return a

    def merge_val(self, c, x, y):
        if x is y:
            return x
        if isinstance(x, Int) and isinstance(y, Int) and x.w == y.w:
            return int_gamma(c, x, y)
        if x is UNINIT or y is UNINIT:
            return x if y is UNINIT else y
        if type(x) is not type(y):
            raise _NoMerge()
        if isinstance(x, Arr) and len(x.elems) == len(y.elems):
            return Arr([self.merge_val(c, p, q) for p, q in zip(x.elems, y.elems)])
        if isinstance(x, Tup) and len(x.elems) == len(y.elems):
            return Tup([self.merge_val(c, p, q) for p, q in zip(x.elems, y.elems)])
        if isinstance(x, Adt) and x.path == y.path and x.variant == y.variant:
            return Adt(x.path, x.variant, x.vname, [self.merge_val(c, p, q) for p, q in zip(x.fields, y.fields)], x.fnames)
        if isinstance(x, VecV):
            if x.elems is not None and y.elems is not None and len(x.elems) == len(y.elems):
                return VecV(elems=[self.merge_val(c, p, q) for p, q in zip(x.elems, y.elems)], cap=x.cap)
            if x.elems is None and y.elems is None and x.content == y.content and x.len.e == y.len.e:
                return x
            raise _NoMerge()
        if isinstance(x, Ref):
            if x.cell.id == y.cell.id and x.path == y.path:
                return x
            raise _NoMerge()
        if isinstance(x, SliceRef):
            if x.base.cell.id == y.base.cell.id and x.base.path == y.base.path and x.start == y.start and x.n == y.n:
                return x
            raise _NoMerge()
        if isinstance(x, Opaque):
            if x.e == y.e:
                return x
            return Opaque(gamma_any(c, x.e, y.e), x.ty)
        if isinstance(x, SymSlice):
            if x.content == y.content and x.len.e == y.len.e:
                return x
            raise _NoMerge()
        if isinstance(x, FnVal):
            if fn_key(x) == fn_key(y):
                return x
            w = self.ptr_bits
            return Int(w, False, E("gamma", (c, E("fnaddr", fn_key(x), w), E("fnaddr", fn_key(y), w)), w))
        if isinstance(x, IterV):
            if x.kind == y.kind:
                return IterV(x.kind, self.merge_val(c, x.a, y.a) if x.a is not None else None,
                             self.merge_val(c, x.b, y.b) if x.b is not None else None,
                             self.merge_val(c, x.c, y.c) if x.c is not None else None)
            raise _NoMerge()
        if isinstance(x, ClosureV):
            if x.path == y.path:
                return ClosureV(x.path, [self.merge_val(c, p, q) for p, q in zip(x.captures, y.captures)])
            raise _NoMerge()
        if x is UNIT and y is UNIT:
            return UNIT
        if isinstance(x, int) and x == y:
            return x
        raise _NoMerge()

    # ---------------------------------------------------------------- places / operands
    def lv(self, st, fr, place):
        cur = LV(cell=fr.locals[place["l"]], path=(), ty=fr.body["locals"][place["l"]]["ty"])
        for pe in place["p"]:
            k = pe["k"]
            if k == "deref":
                v = self.read_lv(cur)
                if isinstance(v, Ref):
                    cur = LV(cell=v.cell, path=v.path)
                elif isinstance(v, SliceRef):
                    cur = LV(slice_=v)
                elif isinstance(v, SymSlice):
                    cur = LV(sym=v.content, addr=v.ptr)
                elif isinstance(v, Opaque):
                    inner_e = v.e.args[0] if v.e.op == "ref" else E("deref", (v.e,))
                    cur = LV(sym=inner_e, ty=(v.ty or {}).get("inner"))
                elif isinstance(v, Int):
                    cur = LV(sym=E("mem", (v.e,)), addr=v)
                elif isinstance(v, FnVal):
                    cur = LV(sym=E("deref", (E("fnaddr", (v.path,)),)))
                else:
                    raise Unsupported("deref of %r" % (v,))
            elif k in ("field", "downcast") and cur.sym is None and cur.slice is None and self._opaque_at(cur) is not None:
                o = self._opaque_at(cur)
                base = o.e if isinstance(o, Opaque) else o.content
                if k == "field":
                    cur = LV(sym=E("field", (base, pe["name"] if pe["name"] is not None else str(pe["i"]))), ty=pe["ty"])
                else:
                    cur = LV(sym=E("downcast", (base, pe["variant"])))
            elif k == "field":
                if cur.sym is not None:
                    cur = LV(sym=E("field", (cur.sym, pe["name"] if pe["name"] is not None else str(pe["i"]))), ty=pe["ty"],
                             addr=cur.addr)
                elif cur.slice is not None:
                    raise Unsupported("field of slice")
                else:
                    cur = LV(cell=cur.cell, path=cur.path + (("f", pe["i"]),), ty=pe["ty"])
            elif k == "downcast":
                if cur.sym is not None:
                    cur = LV(sym=E("downcast", (cur.sym, pe["variant"])), addr=cur.addr)
                else:
                    cur = LV(cell=cur.cell, path=cur.path + (("v", pe["variant"]),))
            elif k in ("index", "cindex"):
                if k == "index":
                    iv = fr.locals[pe["local"]].val
                    if not (isinstance(iv, Int) and iv.is_const()):
                        if cur.sym is not None:
                            cur = LV(sym=E("index", (cur.sym, iv.e)), addr=cur.addr)
                            continue
                        raise Unsupported("non-constant index %r in %s" % (iv, fr.fn))
                    n = iv.cval()
                else:
                    if pe["from_end"]:
                        raise Unsupported("from_end index")
                    n = pe["offset"]
                if cur.slice is not None:
                    s = cur.slice
                    if n >= s.n:
                        raise Unsupported("index %d out of slice bounds %d" % (n, s.n))
                    cur = LV(cell=s.base.cell, path=s.base.path + (("i", s.start + n),))
                elif cur.sym is not None:
                    cur = LV(sym=E("index", (cur.sym, const(n, self.ptr_bits))), addr=cur.addr)
                else:
                    cur = LV(cell=cur.cell, path=cur.path + (("i", n),))
            else:
                raise Unsupported("projection " + k)
        return cur

    def _opaque_at(self, cur):
        try:
            v = get_path(cur.cell.val, cur.path)
        except Unsupported:
            return None
        if isinstance(v, Opaque):
            return v
        return None

    def read_lv(self, lv):
        if lv.sym is not None:
            if lv.ty is not None:
                return self.sym_value(lv.sym, lv.ty)
            return Opaque(lv.sym, None)
        if lv.slice is not None:
            s = lv.slice
            base = get_path(s.base.cell.val, s.base.path)
            elems = base.elems
            return Arr(elems[s.start:s.start + s.n])
        v = get_path(lv.cell.val, lv.path)
        return v

    def write_lv(self, st, fr, lv, val, span=None):
        if lv.sym is not None:
            self.event(st, "raw_store", "store", [Opaque(lv.sym), val], None, span, extra={"addr": lv.addr})
            return
        if lv.slice is not None:
            raise Unsupported("whole-slice assignment")
        lv.cell.val = set_path(lv.cell.val, lv.path, val)

    def read_place(self, st, fr, place):
        # table[flag as usize]: a read indexed by a value that is 0 or 1 (all bits above bit 0 are known zero) is the choice between
        # the two elements
        ps = place["p"]
        if ps and ps[-1]["k"] == "index":
            iv = fr.locals[ps[-1]["local"]].val
            if isinstance(iv, Int) and not iv.is_const():
                bits = iv.get_bits()
                if isinstance(bits[0], E) and all(b == 0 for b in bits[1:]):
                    def at(n):
                        q = dict(place)
                        q["p"] = list(ps[:-1]) + [{"k": "cindex", "offset": n, "from_end": False, "min_length": n + 1}]
                        return self.read_lv(self.lv(st, fr, q))
                    try:
                        return self.merge_val(bits[0], at(1), at(0))
                    except _NoMerge:
                        pass
        lv = self.lv(st, fr, place)
        if lv.sym is not None and lv.ty is None:
            # type of the place from the projection chain, if known
            pass
        return self.read_lv(lv)

    def operand(self, st, fr, op):
        k = op["k"]
        if k in ("copy", "move"):
            v = self.read_place(st, fr, op["place"])
            if v is UNINIT:
                raise Unsupported("read of uninitialised %s in %s" % (op["place"], fr.fn))
            return v
        if k == "fn":
            return FnVal(op["path"], tuple(self.garg(fr, g) for g in op["args"]))
        if k == "const":
            return self.constant(st, fr, op)
        raise Unsupported("operand kind " + k)

    def garg(self, fr, g):
        if "const" in g:
            c = g["const"]
            if isinstance(c, str):
                return ("const", fr.gmap.get(c, c))
            return ("const", c)
        if "ty" in g:
            t = g["ty"]
            if t["k"] == "param" and t["name"] in fr.gmap:
                return ("ty", fr.gmap[t["name"]])
            return ("ty", t)
        return ("lt", None)

    def constant(self, st, fr, op):
        ty = op["ty"]
        v = op["val"]
        un = op.get("uneval")
        if v["k"] == "int":
            ii = int_info(ty, self.ptr_bits)
            if ii:
                return int_const(int(v["bits"]), ii[0], ii[1])
            if ty["k"] == "adt":
                # a scalar constant of a crate newtype (struct with one scalar field, possibly nested): rebuild the struct around the value
                def wrap(t, bits, depth=0):
                    i2 = int_info(t, self.ptr_bits)
                    if i2:
                        return int_const(bits, i2[0], i2[1])
                    a_ = self.facts.adts.get(t.get("path")) if t.get("k") == "adt" else None
                    if a_ and len(a_["variants"]) == 1 and len(a_["variants"][0]["fields"]) == 1 and depth < 4 and not t.get("args_has_param"):
                        f_ = a_["variants"][0]["fields"][0]
                        inner = wrap(f_["ty"], bits, depth + 1)
                        if inner is not None:
                            return Adt(t["path"], 0, a_["variants"][0]["name"], [inner], [f_["name"]])
                    return None
                w_ = wrap(ty, int(v["bits"]))
                if w_ is not None:
                    return w_
                return Opaque(E("const_adt", (op["s"],)), ty)
            raise Unsupported("int const of type " + ty["s"])
        if v["k"] == "zst":
            if is_unit_ty(ty):
                return UNIT
            if ty["k"] == "fndef":
                return FnVal(ty["path"], tuple(self.garg(fr, g) for g in ty["args"]))
            if ty["k"] == "adt":
                adt = self.facts.adts.get(ty["path"])
                if adt and len(adt["variants"]) == 1 and not adt["variants"][0]["fields"]:
                    return Adt(ty["path"], 0, adt["variants"][0]["name"], [], [])
            return Opaque(E("zst", (ty["s"],)), ty)
        # named constant / promoted with a crate-local body: evaluate the body (arrays, ranges, ...)
        if un is not None:
            key = (un["path"], un["promoted"])
            body = self.facts.bodies.get(key)
            if body is not None:
                val = self.eval_const_body(key, fr)
                if val is not None:
                    return val
        if v["k"] == "mem":
            return self.decode_mem(v, ty, op)
        if v["k"] == "static":
            return Opaque(E("static", (v["path"],)), ty)
        if v["k"] == "fnaddr":
            return FnVal(v["path"])
        if v["k"] == "unevaluable":
            # generic-dependent constant: try the generic map
            s = op["s"]
            if s in fr.gmap:
                ii = int_info(ty, self.ptr_bits)
                gv = fr.gmap[s]
                if ii and isinstance(gv, str):
                    if gv in ("true", "false"):
                        gv = 1 if gv == "true" else 0
                    else:
                        try:
                            gv = int(gv.split("_")[0], 0)      # "5", "5_usize"
                        except ValueError:
                            pass
                if ii and isinstance(gv, int):
                    return int_const(gv, ii[0], ii[1])
        return Opaque(E("const", (op["s"],)), ty)

    def eval_const_body(self, key, fr):
        ck = key
        if ck in self.const_cache:
            return copy.deepcopy(self.const_cache[ck])
        body = self.facts.bodies[key]
        st = State()
        f2 = Frame(body, len(body["locals"]))
        f2.gmap = dict(fr.gmap) if fr is not None else {}
        st.frames.append(f2)
        try:
            res = self.run(st, None)
        except (Unsupported, _NeedSummary):
            return None
        if len(res) != 1 or res[0].status != "returned" or res[0].trace:
            return None
        val = res[0].ret
        if key[1] is not None or body["def_kind"].startswith("Static") is False:
            # promoteds and consts of reference type yield references to anonymous storage
            pass
        self.const_cache[ck] = val
        return copy.deepcopy(val)

    def decode_mem(self, v, ty, op):
        data = v["bytes"]
        off = v.get("offset", 0)
        t = ty
        is_ref = False
        if t["k"] == "ref":
            is_ref = True
            t = t["inner"]
        if t["k"] == "str":
            n = v.get("slice_len", len(data))
            text = bytes(data[off:off + n]).decode("utf-8", "replace")
            return Opaque(E("str", (text,)), ty)
        elem = None
        n = None
        if t["k"] == "array" and isinstance(t["len"], int):
            elem, n = t["elem"], t["len"]
        elif t["k"] == "slice" and "slice_len" in v:
            elem, n = t["elem"], v["slice_len"]
        if elem is not None:
            ii = int_info(elem, self.ptr_bits)
            if ii and not v.get("has_ptrs"):
                w, s = ii
                sz = max(1, w // 8)
                elems = []
                for i in range(n):
                    chunk = data[off + i * sz: off + (i + 1) * sz]
                    val = int.from_bytes(bytes(chunk), "little")
                    elems.append(int_const(val, w, s))
                arr = Arr(elems)
                if is_ref:
                    c = Cell(arr, name="const")
                    if t["k"] == "slice":
                        return SliceRef(Ref(c), 0, n)
                    return Ref(c)
                return arr
        ii = int_info(t, self.ptr_bits)
        if ii and not v.get("has_ptrs"):
            w, s = ii
            val = int.from_bytes(bytes(data[off:off + max(1, w // 8)]), "little")
            iv = int_const(val, w, s)
            if is_ref:
                return Ref(Cell(iv, name="const"))
            return iv
        return Opaque(E("const", (op["s"],)), ty)

    # ---------------------------------------------------------------- events
    def event(self, st, kind, name, args, ret, span, extra=None):
        self.ev_counter[0] += 1
        ev = Event(kind, name, list(args), ret, span, st.stack(), len(st.trace), extra)
        st.trace.append(ev)
        return ev

    def single_pointer_field(self, val, ty, depth=0):
        """(holder Adt, field index) of the only raw-pointer-typed scalar field inside a crate struct value, else None."""
        found = []

        def walk(v, t, d):
            if d > 3 or not isinstance(v, Adt) or not isinstance(t, dict) or t.get("k") != "adt":
                return
            a_ = self.facts.adts.get(t.get("path"))
            if not a_ or len(a_["variants"]) != 1:
                return
            for i, f in enumerate(a_["variants"][0]["fields"]):
                if i >= len(v.fields):
                    break
                ft = f["ty"]
                if ft.get("k") == "ptr" and isinstance(v.fields[i], Int):
                    found.append((v, i))
                elif ft.get("k") == "adt":
                    walk(v.fields[i], ft, d + 1)
        walk(val, ty, depth)
        return found[0] if len(found) == 1 else None

    def fresh(self, st, name, ty, tag="ret"):
        idx = sum(1 for e in st.trace if e.name == name)
        e = E(tag, (name, idx))
        if ty is None:
            return Opaque(e)
        return self.sym_value(e, ty)

    # ---------------------------------------------------------------- block execution
    def exec_block(self, st):
        fr = st.frames[-1]
        blk = fr.body["blocks"][fr.block]
        for stmt in blk["stmts"]:
            k = stmt["k"]
            if k == "assign":
                val = self.rvalue(st, fr, stmt["rv"], stmt.get("span"))
                lv = self.lv(st, fr, stmt["place"])
                self.write_lv(st, fr, lv, val, stmt.get("span"))
            elif k == "set_discr":
                raise Unsupported("set_discriminant")
            elif k == "copy_nonoverlapping":
                src = self.operand(st, fr, stmt["src"])
                dst = self.operand(st, fr, stmt["dst"])
                cnt = self.operand(st, fr, stmt["count"])
                # the statement form has no callee: recover T from the source operand's pointer type
                sty = None
                so = stmt["src"]
                if so.get("k") in ("copy", "move"):
                    sty = self.place_ty(fr, so["place"])
                elif so.get("k") == "const":
                    sty = so.get("ty")
                inner = (sty or {}).get("inner") if (sty or {}).get("k") in ("ptr", "ref") else None
                cctx = CallCtx(self, st, fr, None, "std::ptr::copy_nonoverlapping", [{"ty": inner}] if inner else [], None, stmt.get("span"), None)
                self.models["std::ptr::copy_nonoverlapping"](self, st, cctx, [src, dst, cnt], stmt.get("span"))
        t = blk["term"]
        k = t["k"]
        if k == "goto":
            fr.block = t["target"]
            return None
        if k == "return":
            self.do_return(st)
            return None
        if k == "switch":
            return self.do_switch(st, fr, t)
        if k == "call":
            return self.do_call(st, fr, t)
        if k == "assert":
            c = self.operand(st, fr, t["cond"])
            if isinstance(c, Int) and c.is_const():
                if bool(c.cval()) != bool(t["expected"]):
                    st.status = "diverged"
                    st.note = "assert %s always fails in %s" % (t["msg"], fr.fn)
                    self.event(st, "diverge", "assert:" + t["msg"], [], None, None)
                    return None
            else:
                self.notes.append(("assert", t["msg"], fr.fn, c.e if isinstance(c, Int) else None))
                # an overflow check of a subtraction that no dominating comparison makes redundant (a - b with a >= b not known)
                e = c.e if isinstance(c, Int) else None
                if e is not None and e.op == "not":
                    e = e.args[0]
                if e is not None and e.op == "ovf" and str(e.args[0]).startswith("Sub"):
                    a_, b_ = e.args[1], e.args[2]
                    facts_ = [("uge", a_, b_, 1), ("ult", a_, b_, 0), ("ugt", a_, b_, 1), ("ule", a_, b_, 0), ("ule", b_, a_, 1), ("ugt", b_, a_, 0),
                              ("ult", b_, a_, 1), ("uge", b_, a_, 0), ("sge", a_, b_, 1), ("slt", a_, b_, 0), ("sgt", a_, b_, 1), ("sle", b_, a_, 1)]
                    guarded = any(d[0].op == op_ and d[0].args == (x_, y_) and d[1] == val_ for d in st.decisions for op_, x_, y_, val_ in facts_)
                    if not guarded:
                        self.notes.append(("unguarded-sub", fmt(binop("sub", a_, b_, a_.w), 4), fr.fn, t.get("span")))
            fr.block = t["target"]
            return None
        if k == "drop":
            ty = t["ty"]
            v = None
            try:
                v = self.read_place(st, fr, t["place"])
            except Unsupported:
                v = None
            if self.drop_is_interesting(ty, v):
                self.event(st, "drop", ty["s"], [v], None, t.get("span"))
            dfn = self.token_drop_fn(ty)
            if dfn is not None and v is not None and v is not UNINIT:
                # an RAII token (field-less or scalar-only struct with a destructor): its destructor's effects belong to this path
                lv = self.lv(st, fr, t["place"])
                if lv.cell is not None and lv.sym is None and lv.slice is None:
                    return self.enter(st, fr, dfn, [], [Ref(lv.cell, lv.path, True)], LV(Cell(UNIT), ()), t, t.get("span"))
            fr.block = t["target"]
            return None
        if k == "unreachable":
            st.status = "diverged"
            st.note = "unreachable"
            self.event(st, "diverge", "unreachable", [], None, None)
            return None
        if k == "asm":
            self.event(st, "asm", t["template"], [], None, t.get("span"))
            if not t["targets"]:
                st.status = "diverged"
                return None
            fr.block = t["targets"][0]
            return None
        if k in ("resume", "terminate"):
            st.status = "diverged"
            st.note = k
            return None
        raise Unsupported("terminator " + k)

    def token_drop_fn(self, ty):
        """Path of `<T as Drop>::drop` when T is a crate struct with a destructor and no owning fields (unit-like or scalars
        only): a scope token such as a write window. Types that own memory (guards, containers, verifiers) are analysed as
        roots of their own and are not entered here."""
        if ty.get("k") != "adt":
            return None
        a = self.facts.adts.get(ty.get("path"))
        if not a or len(a["variants"]) != 1:
            return None
        for f in a["variants"][0]["fields"]:
            if int_info(f["ty"], self.ptr_bits) is None or f["ty"].get("k") in ("ptr", "fnptr"):
                return None
        if not hasattr(self, "_drop_fns"):
            self._drop_fns = {f["impl_of"]["self_ty"].get("path"): p for p, f in self.facts.fns.items()
                              if f.get("impl_of") and f["impl_of"].get("trait") == "std::ops::Drop"}
        return self._drop_fns.get(ty["path"])

    def drop_is_interesting(self, ty, v):
        s = ty["s"]
        if v is UNINIT:
            return False
        if ty["k"] == "adt":
            p = ty["path"]
            if p in self.facts.adts:
                return True
            if p in ("std::vec::Vec",):
                args = ty.get("args") or []
                for a in args:
                    t = a.get("ty")
                    if t and t["k"] == "adt" and t["path"] in self.facts.adts:
                        return True
                return False
            if p.startswith("std::sync::"):
                return True
        return False

    def do_return(self, st):
        fr = st.frames.pop()
        rv = fr.locals[0].val
        if rv is UNINIT:
            rty = fr.body["locals"][0]["ty"]
            if is_unit_ty(rty):
                rv = UNIT
        if not st.frames:
            st.status = "returned"
            st.ret = rv
            return
        if fr.dest is not None:
            cell, path = fr.dest
            cell.val = set_path(cell.val, path, rv)
        else:
            st.ret = rv
        caller = st.frames[-1]
        if fr.target is None:
            st.status = "diverged"
            return
        caller.block = fr.target

    def decided(self, st, cond):
        for d in st.decisions:
            if d[0] == cond:
                return d[1]
        if cond.w == 1:
            n = not_(cond)
            for d in st.decisions:
                if d[0] == n and d[1] in (0, 1):
                    return 1 - d[1]
        return None

    def do_switch(self, st, fr, t):
        d = self.operand(st, fr, t["discr"])
        if not isinstance(d, Int):
            raise Unsupported("switch on %r" % (d,))
        arms = [(int(v), tgt) for v, tgt in t["arms"]]
        if d.is_const():
            dv = d.cval()
            for v, tgt in arms:
                if v == dv:
                    fr.block = tgt
                    return None
            fr.block = t["otherwise"]
            return None
        prev = self.decided(st, d.e)
        if prev is not None:
            if isinstance(prev, int):
                for v, tgt in arms:
                    if v == prev:
                        fr.block = tgt
                        return None
                fr.block = t["otherwise"]
                return None
            else:
                fr.block = t["otherwise"]
                return None
        # loop detection: a non-constant branch revisited many times in the same frame = unbounded loop
        fr.visits[fr.block] = fr.visits.get(fr.block, 0) + 1
        if fr.visits[fr.block] > self.LOOP_LIMIT:
            raise _NeedSummary(fr.fn)
        out = []
        for v, tgt in arms:
            out.append((v, tgt))
        if d.w == 1 and len(arms) == 1:
            out.append((1 - arms[0][0], t["otherwise"]))
        else:
            ob = fr.body["blocks"][t["otherwise"]]
            if not (ob["term"]["k"] == "unreachable" and not ob["stmts"]):
                out.append((("otherwise", tuple(v for v, _ in arms)), t["otherwise"]))
        sp = None
        blk = fr.body["blocks"][fr.block]
        for s_ in reversed(blk["stmts"]):
            if s_.get("span"):
                sp = s_["span"]
                break
        return d.e, out, sp

    # ---------------------------------------------------------------- calls
    def callee_name(self, c):
        r = c.get("resolved")
        from .facts import canon_foreign
        return canon_foreign((r["path"] if r else c["path"]), c.get("foreign")), (r["args"] if r else c["args"]), (r["local"] if r else c["local"])

    def do_call(self, st, fr, t):
        c = t["callee"]
        args = [self.operand(st, fr, a) for a in t["args"]]
        span = t.get("span")
        dest_lv = self.lv(st, fr, t["dest"])
        dest_ty = self.place_ty(fr, t["dest"])
        if c["k"] != "def":
            f = self.operand(st, fr, c["op"])
            if isinstance(f, FnVal) and self.facts.body(f.path) is not None:
                return self.enter(st, fr, f.path, [], args, dest_lv, t, span)
            ret = self.fresh(st, "indirect", dest_ty)
            self.event(st, "indirect", "indirect", [f] + args, ret, span)
            return self.finish_call(st, fr, t, dest_lv, ret)
        name, gargs, local = self.callee_name(c)
        if not c.get("resolved") and gargs and self.facts.body(name) is None and "::" in name:
            # a trait method called on a type parameter (`Self::m(..)` inside a provided trait method): the frame knows which type the
            # parameter stands for, so the call goes to that type's impl
            g0 = gargs[0]
            t0 = g0.get("ty") if isinstance(g0, dict) else None
            if t0 and t0.get("k") == "param":
                t0 = fr.gmap.get(t0.get("name"))
            if isinstance(t0, dict) and t0.get("k") == "adt":
                trait_, meth_ = name.rsplit("::", 1)
                cand = "<%s as %s>::%s" % (t0["path"], trait_, meth_)
                if self.facts.body(cand) is not None:
                    name, local, gargs = cand, True, gargs[1:]
        # closures called through Fn* traits
        if name in ("std::ops::FnMut::call_mut", "std::ops::FnOnce::call_once", "std::ops::Fn::call") and args:
            f = args[0]
            if isinstance(f, Ref):
                f = get_path(f.cell.val, f.path)
            if isinstance(f, ClosureV):
                tup = args[1]
                cb = self.facts.body(f.path)
                by_ref = bool(cb) and cb["locals"][1]["ty"].get("k") == "ref"
                selfarg = args[0]
                if by_ref and not isinstance(selfarg, Ref):
                    selfarg = Ref(Cell(selfarg), (), True)
                if not by_ref and isinstance(selfarg, Ref):
                    selfarg = f          # FnOnce-style body takes the closure by value
                targs = list(tup.elems) if isinstance(tup, Tup) else ([] if tup is UNIT else [tup])
                return self.enter(st, fr, f.path, [], [selfarg] + targs, dest_lv, t, span)
            if isinstance(f, FnVal) and self.facts.body(f.path) is not None:
                tup = args[1]
                return self.enter(st, fr, f.path, [], list(tup.elems), dest_lv, t, span)
        if c["diverges"]:
            self.event(st, "diverge", name, args, None, span)
            st.status = "diverged"
            st.note = name
            return None
        body = self.facts.body(name) if local else None
        if body is None and not local:
            from . import models as modelmod
            body = modelmod.SHIMS.get(name)
        if body is not None and not c["foreign"]:
            if name in self.summaries or name in self.auto_summaries:
                ret = self.fresh(st, name, dest_ty)
                ev_ret = ret
                if isinstance(ret, Adt) and self.facts.effectful(name):
                    # a summarised helper that hands its result back inside a crate struct (`Trampoline { ptr, size }`): the event stands for
                    # the one raw pointer in it, which is given the plain result expression the rules know an allocation by
                    leaf = self.single_pointer_field(ret, dest_ty)
                    if leaf is not None:
                        holder, i = leaf
                        old = holder.fields[i]
                        idx_ = sum(1 for e in st.trace if e.name == name)
                        holder.fields[i] = Int(old.w, old.signed, E("ret", (name, idx_), old.w))
                        ev_ret = holder.fields[i]
                self.event(st, "summary", name, args, ev_ret, span, extra={"effectful": self.facts.effectful(name)})
                return self.finish_call(st, fr, t, dest_lv, ret)
            if name in self.stop_at:
                ret = self.fresh(st, name, dest_ty)
                self.event(st, "local", name, args, ret, span)
                return self.finish_call(st, fr, t, dest_lv, ret)
            if body.get("def_kind") == "Closure" and len(args) == 2 and isinstance(args[1], (Tup, type(UNIT))) and \
                    body["arg_count"] == 1 + (len(args[1].elems) if isinstance(args[1], Tup) else 0):
                # a closure called through its own (resolved) body: the rust-call ABI passes (self, (a, b, ...))
                args = [args[0]] + (list(args[1].elems) if isinstance(args[1], Tup) else [])
                cb_by_ref = body["locals"][1]["ty"].get("k") == "ref"
                if not cb_by_ref and isinstance(args[0], Ref):
                    args[0] = get_path(args[0].cell.val, args[0].path)
                elif cb_by_ref and not isinstance(args[0], Ref):
                    args[0] = Ref(Cell(args[0]), (), True)
            return self.enter(st, fr, name, gargs, args, dest_lv, t, span)
        if c["foreign"]:
            ret = self.fresh(st, name, dest_ty)
            self.havoc_mut_args(st, name, args)
            self.event(st, "ffi", name, args, ret, span)
            return self.finish_call(st, fr, t, dest_lv, ret)
        model = self.find_model(name)
        if model is not None:
            ctx = CallCtx(self, st, fr, t, name, gargs, dest_ty, span, dest_lv)
            try:
                res = model(self, st, ctx, args, span)
            except Unsupported as e:
                # outside the modelled subset: treat as an unknown external call (sound: result fresh, &mut arguments havocked)
                self.notes.append(("model-fallback", name, str(e)))
                ret = self.fresh(st, name, dest_ty)
                self.havoc_mut_args(st, name, args)
                self.event(st, "ext", name, args, ret, span, extra={"gargs": gargs, "fallback": str(e)})
                return self.finish_call(st, fr, t, dest_lv, ret)
            if isinstance(res, Enter):
                return self.enter(st, fr, res.path, [], res.args, dest_lv, t, span)
            if res is DIVERGE:
                st.status = "diverged"
                st.note = name
                return None
            if isinstance(res, Fork):
                return self.fork_call(st, fr, t, dest_lv, res, span)
            return self.finish_call(st, fr, t, dest_lv, res)
        ret = self.fresh(st, name, dest_ty)
        self.havoc_mut_args(st, name, args)
        self.event(st, "ext", name, args, ret, span, extra={"gargs": gargs})
        return self.finish_call(st, fr, t, dest_lv, ret)

    def havoc_mut_args(self, st, name, args):
        for i, a in enumerate(args):
            if isinstance(a, SliceRef) and a.mut:
                # unknown callee may overwrite every element of the window
                idx = sum(1 for e in st.trace if e.name == name)
                base = get_path(a.base.cell.val, a.base.path)
                elems = list(base.elems) if hasattr(base, "elems") and base.elems is not None else None
                if elems is not None:
                    for k in range(a.start, a.start + a.n):
                        old = elems[k]
                        if isinstance(old, Int):
                            elems[k] = Int(old.w, old.signed, E("out", (name, idx, i, k), old.w))
                        else:
                            elems[k] = Opaque(E("out", (name, idx, i, k)))
                    newv = Arr(elems) if isinstance(base, Arr) else VecV(elems=elems, cap=base.cap)
                    a.base.cell.val = set_path(a.base.cell.val, a.base.path, newv)
                continue
            if isinstance(a, Ref) and a.mut:
                old = get_path(a.cell.val, a.path)
                idx = sum(1 for e in st.trace if e.name == name)
                e = E("out", (name, idx, i))
                if isinstance(old, Int):
                    new = Int(old.w, old.signed, E("out", (name, idx, i), old.w))
                else:
                    new = Opaque(e)
                a.cell.val = set_path(a.cell.val, a.path, new)

    def fork_call(self, st, fr, t, dest_lv, fk, span):
        prev = self.decided(st, fk.cond)
        outs = fk.outcomes
        if prev is not None:
            outs = [(v, r) for v, r in outs if v == prev]
        if len(outs) == 1:
            v, r = outs[0]
            if r is DIVERGE:
                st.status = "diverged"
                return None
            return self.finish_call(st, fr, t, dest_lv, r)
        return fk.cond, [(v, ("ret", t, r)) for v, r in outs], span

    def finish_call(self, st, fr, t, dest_lv, ret):
        if ret is None:
            ret = UNIT
        self.write_lv(st, fr, dest_lv, ret, t.get("span"))
        if t["target"] is None:
            st.status = "diverged"
            return None
        fr.block = t["target"]
        return None

    def enter(self, st, fr, path, gargs, args, dest_lv, t, span):
        body = self.body_of(path)
        if len(st.frames) > 40:
            raise Unsupported("call depth exceeded (recursion?) at " + path)
        if any(f.fn == path for f in st.frames):
            raise Unsupported("recursion through " + path)
        nf = Frame(body, len(body["locals"]))
        if len(args) != body["arg_count"]:
            raise Unsupported("arg count mismatch calling %s: %d vs %d" % (path, len(args), body["arg_count"]))
        for i, a in enumerate(args):
            nf.locals[1 + i].val = a
        if dest_lv.sym is not None or dest_lv.slice is not None:
            raise Unsupported("call destination is not a tracked place")
        nf.dest = (dest_lv.cell, dest_lv.path)
        nf.target = t["target"]
        self.entered.add(path)
        if path.startswith("__shim::") or self.facts.body(path) is None:
            nf.gmap["__gargs"] = [self.garg(fr, g) for g in gargs]
        fn = self.facts.fns.get(path)
        if fn and fn.get("generics"):
            names = fn["generics"]
            for n, g in zip(names, gargs):
                if "const" in g:
                    c = g["const"]
                    nf.gmap[n] = fr.gmap.get(c, c) if isinstance(c, str) else c
                elif "ty" in g:
                    tt = g["ty"]
                    nf.gmap[n] = fr.gmap.get(tt["name"], tt) if tt["k"] == "param" else tt
        st.frames.append(nf)
        return None

    def place_ty(self, fr, place):
        ty = fr.body["locals"][place["l"]]["ty"]
        for pe in place["p"]:
            if pe["k"] == "field":
                ty = pe["ty"]
            elif pe["k"] == "deref":
                ty = ty.get("inner") if ty else None
            elif pe["k"] in ("index", "cindex"):
                ty = ty.get("elem") if ty else None
            if ty is None:
                return None
        return ty

    def find_model(self, name):
        m = self.models.get(name)
        if m is not None:
            return m
        for pat, fn in self.models.items():
            if pat.endswith("*") and name.startswith(pat[:-1]):
                return fn
        return None

    # ---------------------------------------------------------------- rvalues
    def rvalue(self, st, fr, rv, span):
        k = rv["k"]
        if k == "use":
            return self.operand(st, fr, rv["op"])
        if k == "copy_for_deref":
            return self.read_place(st, fr, rv["place"])
        if k in ("ref", "rawptr"):
            place = rv["place"]
            if len(place["p"]) == 1 and place["p"][0]["k"] == "deref" and isinstance(fr.locals[place["l"]].val, RawSlice):
                return fr.locals[place["l"]].val          # reborrow of a raw slice: the same window
            lv = self.lv(st, fr, place)
            if lv.slice is not None:
                s = lv.slice
                return SliceRef(s.base, s.start, s.n, rv["mut"])
            if lv.sym is not None:
                # reborrow of symbolic memory
                if place["p"] and place["p"][-1]["k"] == "deref":
                    base = dict(place)
                    base = {"l": place["l"], "p": place["p"][:-1]}
                    return self.read_place(st, fr, base)
                rty = {"k": "ref", "mut": rv["mut"], "inner": lv.ty, "s": "&" + (lv.ty or {}).get("s", "?")} if lv.ty else None
                return Opaque(E("ref", (lv.sym,)), rty)
            return Ref(lv.cell, lv.path, rv["mut"])
        if k == "cast":
            return self.cast(st, fr, rv)
        if k == "binop":
            a = self.operand(st, fr, rv["a"])
            b = self.operand(st, fr, rv["b"])
            return self.binop(rv["op"], a, b)
        if k == "unop":
            a = self.operand(st, fr, rv["a"])
            op = rv["op"]
            if op == "Not":
                if isinstance(a, Int):
                    return int_not(a)
            elif op == "Neg":
                if isinstance(a, Int):
                    return int_neg(a)
            elif op == "PtrMetadata":
                if isinstance(a, SliceRef):
                    return int_const(a.n, self.ptr_bits)
                if isinstance(a, SymSlice):
                    return a.len
            raise Unsupported("unop %s on %r" % (op, a))
        if k == "discr":
            v = self.read_place(st, fr, rv["place"])
            if isinstance(v, Adt):
                # the discriminant *value*: for a crate enum with explicit discriminants (`Movk = 0b11`) it differs from the variant index
                a_ = self.facts.adts.get(v.path)
                dv = None
                if a_ and v.variant < len(a_["variants"]):
                    dv = a_["variants"][v.variant].get("discr")
                val = v.variant if dv is None else int(dv)
                if val >= 1 << (self.ptr_bits - 1):
                    val -= 1 << 128 if val >= 1 << 127 else 0        # negative discriminants are exported as u128
                return int_const(val & ((1 << self.ptr_bits) - 1), self.ptr_bits, True)
            if isinstance(v, Opaque):
                return Int(self.ptr_bits, True, E("discr", (v.e,), self.ptr_bits))
            raise Unsupported("discriminant of %r" % (v,))
        if k == "aggregate":
            ops = [self.operand(st, fr, o) for o in rv["ops"]]
            kd = rv["kind"]
            if kd["k"] == "array":
                return Arr(ops)
            if kd["k"] == "tuple":
                return Tup(ops) if ops else UNIT
            if kd["k"] == "adt":
                val = Adt(kd["path"], kd["variant"], kd["variant_name"], ops, kd["fields"])
                if kd["path"] in self.drop_adts:
                    st.constructed.append((kd["path"], len(st.trace), span, val))
                return val
            if kd["k"] == "closure":
                return ClosureV(kd["path"], ops)
            if kd["k"] == "rawptr":
                raise Unsupported("raw pointer from parts")
            raise Unsupported("aggregate " + kd["k"])
        if k == "repeat":
            n = rv["count"]
            if isinstance(n, str):
                n = fr.gmap.get(n)
                if not isinstance(n, int):
                    raise Unsupported("repeat count %r not constant" % (rv["count"],))
            v = self.operand(st, fr, rv["op"])
            return Arr([copy.deepcopy(v) for _ in range(n)])
        raise Unsupported("rvalue " + k + " " + str(rv.get("s", ""))[:80])

    def binop(self, op, a, b):
        if isinstance(a, Int) and isinstance(b, Int):
            if op.endswith("WithOverflow"):
                r = int_binop(op, a, b)
                ov = Int(1, False, E("ovf", (op, a.e, b.e), 1))
                if a.is_const() and b.is_const():
                    ov = int_const(0, 1)   # constant folded; true overflow on constants would be a compile error
                return Tup([r, ov])
            if op == "Cmp":
                raise Unsupported("three-way compare")
            return int_binop(op, a, b)
        if isinstance(a, Int) and isinstance(b, Opaque):
            return self.binop(op, a, Int(a.w, a.signed, E(b.e.op, b.e.args, a.w)))
        if isinstance(b, Int) and isinstance(a, Opaque) and not op.startswith("Sh"):
            return self.binop(op, Int(b.w, b.signed, E(a.e.op, a.e.args, b.w)), b)
        if op in ("Eq", "Ne") and (isinstance(a, (Ref, FnVal, Opaque)) or isinstance(b, (Ref, FnVal, Opaque))):
            ea = a.e if isinstance(a, (Int, Opaque)) else E("addr", (repr(a),))
            eb = b.e if isinstance(b, (Int, Opaque)) else E("addr", (repr(b),))
            return Int(1, False, E("eq" if op == "Eq" else "ne", (ea, eb), 1))
        raise Unsupported("binop %s on %r, %r" % (op, a, b))

    def cast(self, st, fr, rv):
        kind = rv["kind"]
        v = self.operand(st, fr, rv["op"])
        ty = rv["ty"]
        ii = int_info(ty, self.ptr_bits)
        if kind.startswith("IntToInt") or kind.startswith("PointerExposeProvenance") or kind.startswith("PointerWithExposedProvenance") \
                or kind.startswith("PtrToPtr") or kind.startswith("FnPtrToPtr") or kind.startswith("Transmute"):
            if isinstance(v, Int):
                if ii:
                    return int_cast(v, ii[0], ii[1])
                return v
            if isinstance(v, FnVal):
                if kind.startswith("PointerExposeProvenance") or (ii and ty["k"] in ("int", "uint")):
                    return Int(self.ptr_bits, False, E("fnaddr", fn_key(v), self.ptr_bits))
                return v
            if isinstance(v, (Ref, SliceRef, SymSlice)):
                if ii and ty["k"] in ("int", "uint"):
                    return Int(self.ptr_bits, False, E("addr_of", (repr(v),), self.ptr_bits))
                return v
            if isinstance(v, Opaque):
                if ii:
                    return Int(ii[0], ii[1], E("cast", (v.e,), ii[0]))
                return Opaque(v.e, ty)
            if kind.startswith("Transmute") and isinstance(v, Adt) and len(v.fields) == 1 and isinstance(v.fields[0], (Int, Opaque, Ref, SliceRef, SymSlice)):
                # a pointer newtype (NonNull, Unique) reinterpreted as the raw pointer it wraps: how Box<[T]> is dereferenced
                inner = v.fields[0]
                if isinstance(inner, Int) and ty.get("k") in ("ptr", "ref") and (ty.get("inner") or {}).get("k") == "slice":
                    # Box<[T]> held in a symbolic struct: describe it like a symbolic Vec<T> field (content / pointer / length of that field)
                    e_ = inner.e
                    while e_.op == "field" and e_.args[1] in ("0", "pointer"):
                        e_ = e_.args[0]
                    content = E("vec_content", (e_,))
                    return SymSlice(content, Int(self.ptr_bits, False, E("vec_ptr", (content,), self.ptr_bits)),
                                    Int(self.ptr_bits, False, E("vec_len", (e_,), self.ptr_bits)))
                return inner
            raise Unsupported("cast %s of %r" % (kind, v))
        if kind.startswith("PointerCoercion"):
            if "Unsize" in kind:
                if isinstance(v, Ref):
                    tgt = get_path(v.cell.val, v.path)
                    if isinstance(tgt, Arr):
                        return SliceRef(v, 0, len(tgt.elems), v.mut)
                    raise Unsupported("unsize of ref to %r" % (tgt,))
                if isinstance(v, Opaque):
                    return Opaque(E("unsize", (v.e,)), ty)
                raise Unsupported("unsize of %r" % (v,))
            if "ReifyFnPointer" in kind or "ClosureFnPointer" in kind or "UnsafeFnPointer" in kind:
                if isinstance(v, ClosureV):
                    return FnVal(v.path, (), "closure")
                return v
            if "MutToConstPointer" in kind or "ArrayToPointer" in kind:
                return v
            raise Unsupported("pointer coercion " + kind)
        if kind.startswith("IntToFloat") or kind.startswith("FloatToInt") or kind.startswith("FloatToFloat"):
            raise Unsupported("float cast")
        raise Unsupported("cast kind " + kind)


def reachable_cells(st):
    seen = {}
    stack = []

    def visit(v):
        stack.append(v)

    for fr in st.frames:
        for c in fr.locals:
            seen[c.id] = c
            stack.append(c.val)
        if fr.dest is not None:
            seen.setdefault(fr.dest[0].id, fr.dest[0])
    while stack:
        v = stack.pop()
        if isinstance(v, Ref):
            if v.cell.id not in seen:
                seen[v.cell.id] = v.cell
                stack.append(v.cell.val)
        elif isinstance(v, SliceRef):
            stack.append(v.base)
        elif isinstance(v, (Arr, Tup)):
            stack.extend(v.elems)
        elif isinstance(v, Adt):
            stack.extend(v.fields)
        elif isinstance(v, VecV):
            if v.elems is not None:
                stack.extend(v.elems)
        elif isinstance(v, ClosureV):
            stack.extend(v.captures)
        elif isinstance(v, IterV):
            stack.extend([v.a, v.b, v.c])
    return seen


class CallCtx:
    def __init__(self, m, st, fr, term, name, gargs, dest_ty, span, dest_lv):
        self.m = m
        self.st = st
        self.fr = fr
        self.term = term
        self.name = name
        self.gargs = gargs
        self.dest_ty = dest_ty
        self.span = span
        self.dest_lv = dest_lv


def closure_writes_its_captures(body):
    """Does the closure body assign to, or mutably borrow, anything reached through its own environment (local 1)?"""
    def on_env(place):
        return place is not None and place.get("l") == 1
    for blk in body["blocks"]:
        for st_ in blk["stmts"]:
            if st_.get("k") == "assign":
                if on_env(st_.get("place")):
                    return True
                rv = st_.get("rv") or {}
                if rv.get("k") in ("ref", "rawptr") and rv.get("mut") and on_env(rv.get("place")):
                    return True
        t = blk["term"]
        if t.get("k") == "call" and on_env(t.get("dest")):
            return True
    return False


class Enter:
    """Returned by a model to make the machine enter a crate-local function (e.g. a closure)."""

    def __init__(self, path, args):
        self.path = path
        self.args = args


class _NoMerge(Exception):
    pass


class _NeedSummary(Exception):
    def __init__(self, fn):
        self.fn = fn


class _ForkCall(Exception):
    def __init__(self, fk, outs):
        self.fk = fk
        self.outs = outs


def gamma_any(c, a, b):
    if a == b:
        return a
    return E("gamma", (c, a, b), a.w)
