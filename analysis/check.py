"""`./verif check <id> [--tier quick|thorough]`"""
import sys, os, importlib, traceback
from . import extract
from .report import Check
from .model import TargetModel

H = extract.HOST
HR = H + "@release"          # host triple compiled without debug assertions / overflow checks
A64L = "aarch64-unknown-linux-gnu"
A64M = "aarch64-apple-darwin"       # macOS: long entry form, write alias, jit write protection
WIN = "x86_64-pc-windows-msvc"      # Windows: VirtualAlloc/VirtualProtect/FlushInstructionCache paths
ARM = "armv7-unknown-linux-gnueabihf"

TARGETS = {
    # property -> (quick targets, thorough targets)
    "C01": ([H, A64L, ARM, HR, A64M, WIN], list(extract.ALL_TARGETS) + [HR]),
    "C16": ([ARM], [ARM, "thumbv7neon-unknown-linux-gnueabihf"]),
    "C13": ([H, A64L, ARM, HR, A64M], list(extract.ALL_TARGETS) + [HR]),
    "C02": ([H, A64L, ARM, HR, A64M, WIN], list(extract.ALL_TARGETS) + [HR]),
    "C03": ([H, A64L, ARM, HR, A64M, WIN], list(extract.ALL_TARGETS) + [HR]),
    "C12": ([H, A64L, HR, A64M, WIN], list(extract.ALL_TARGETS) + [HR]),
    "C17": ([H, A64L, HR, A64M, WIN], list(extract.ALL_TARGETS) + [HR]),
    "C11": ([H, A64L, HR, A64M, WIN], [t for t in extract.ALL_TARGETS if "arm" not in t.split("-")[0] and "thumb" not in t] + [HR]),
    "C04": ([H, HR], list(extract.ALL_TARGETS) + [HR]),
    "C05": ([H, "x86_64-pc-windows-msvc", HR], list(extract.ALL_TARGETS) + [HR]),
    "C06": ([H, HR], [H, HR]),
    "C07": ([H, HR], [H, HR]),
    "C08": ([H, HR], [H, HR]),
    "C09": ([H, HR], [H, HR]),
    "C14": ([H, A64L], [H, A64L, ARM, A64M]),
    "C10": ([H, A64L, ARM, HR, A64M], list(extract.ALL_TARGETS) + [HR]),
    "C15": ([A64L, "aarch64-apple-darwin"], [A64L, "aarch64-apple-darwin", "aarch64-pc-windows-msvc"]),
}

EXPLAIN = {}


def main(argv):
    if not argv:
        print("usage: verif check <id> [--tier quick|thorough]")
        return 2
    pid = argv[0]
    tier = os.environ.get("VERIF_TIER") or "quick"
    if "--tier" in argv:
        tier = argv[argv.index("--tier") + 1]
    seed = int(os.environ.get("VERIF_SEED", "0") or 0)
    if pid not in TARGETS:
        print("no check for", pid)
        return 2
    mod = importlib.import_module(".rules.%s" % pid.lower(), __package__)
    q, t = TARGETS[pid]
    targets = q if tier == "quick" else t
    ck = Check(pid, tier, seed)
    try:
        with extract.Workspace() as ws:
            facts = ws.lib_facts_many(targets)
            models = [TargetModel(facts[t]) for t in targets]
            ck.ws = ws
            mod.run(ck, models, tier, *( [ws] if getattr(mod, "NEEDS_WS", False) else [] ))
    except extract.ExtractError as e:
        print("extraction failed: %s" % e)
        ck.ob("infra", "extraction", "*", False, "fact extraction failed: %s" % str(e)[:500])
    except Exception as e:
        traceback.print_exc()
        ck.ob("infra", "analysis-error", "*", False, "analysis raised %s: %s (failing closed)" % (type(e).__name__, str(e)[:500]))
    expl = ("Static analysis (abstract interpretation of rustc MIR + rule checks). Decided: %s  NOT decided: %s" % (ck.decided, ck.not_decided))
    return ck.finish(expl)
