"""`./verif check <id> [--tier quick|thorough]`"""
import sys, os, importlib, traceback
from . import extract
from .report import Check
from .model import TargetModel

H = extract.HOST
HR = H + "@release"          # host triple compiled without debug assertions / overflow checks
A64L = "aarch64-unknown-linux-gnu"
A64M = "aarch64-apple-darwin"       # macOS: long entry form, write alias, jit write protection
WIN = "x86_64-pc-windows-msvc"      # Windows: VirtualAlloc/VirtualProtect/FlushInstructionCache paths
ARM = "armv7-unknown-linux-gnueabihf"

# thorough tier: every target in both profiles (dev and release: debug assertions and overflow checks off)
ALL2 = list(extract.ALL_TARGETS) + [t + "@release" for t in extract.ALL_TARGETS]

TARGETS = {
    # property -> (quick targets, thorough targets)
    "C01": ([H, A64L, ARM, HR, A64M, WIN], ALL2),
    "C16": ([ARM, ARM + "@release"], [ARM, "thumbv7neon-unknown-linux-gnueabihf", ARM + "@release", "thumbv7neon-unknown-linux-gnueabihf@release"]),
    "C13": ([H, A64L, ARM, HR, A64M], ALL2),
    "C02": ([H, A64L, ARM, HR, A64M, WIN], ALL2),
    "C03": ([H, A64L, ARM, HR, A64M, WIN], ALL2),
    "C12": ([H, A64L, HR, A64M, WIN], ALL2),
    "C17": ([H, A64L, HR, A64M, WIN], ALL2),
    "C11": ([H, A64L, HR, A64M, WIN], [t for t in ALL2 if "arm" not in t.split("-")[0] and "thumb" not in t]),
    "C04": ([H, HR], ALL2),
    "C05": ([H, "x86_64-pc-windows-msvc", HR], ALL2),
    "C06": ([H, HR], [H, HR]),
    "C07": ([H, HR], [H, HR]),
    "C08": ([H, HR], [H, HR]),
    "C09": ([H, HR], [H, HR]),
    "C14": ([H, A64L, HR], [H, A64L, ARM, A64M, HR, A64L + "@release"]),
    "C10": ([H, A64L, ARM, HR, A64M], ALL2),
    "C15": ([A64L, A64M, A64L + "@release"], [A64L, A64M, "aarch64-pc-windows-msvc", A64L + "@release", A64M + "@release", "aarch64-pc-windows-msvc@release"]),
}

EXPLAIN = {}


_W = {}


def _worker(target):
    """Runs the property's rules on one target in a forked child; returns the picklable part of its Check."""
    w = _W
    ck = Check(w["pid"], w["tier"], w["seed"])
    ck.ws = w["ws"]
    try:
        w["mod"].run(ck, [TargetModel(w["facts"][target])], w["tier"], *([w["ws"]] if w["needs_ws"] else []))
    except extract.ExtractError as e:
        ck.ob("infra", "extraction", target, False, "fact extraction failed: %s" % str(e)[:500])
    except Exception as e:
        tb = traceback.format_exc()
        ck.infos.append("worker %s: %s" % (target, tb[-1500:]))
        ck.ob("infra", "analysis-error", target, False, "analysis raised %s: %s (failing closed)" % (type(e).__name__, str(e)[:500]))
    def plain(v):
        return dict((k, (x if isinstance(x, (str, int, float, bool, type(None))) else str(x))) for k, x in v.items())
    return {"obligations": [plain(o) for o in ck.obligations], "violations": [plain(v) for v in ck.violations],
            "known_hits": [(k, plain(r)) for k, r in ck.known_hits], "infos": list(ck.infos), "analysed": list(ck.analysed),
            "assumptions": list(ck.assumptions), "trusted": list(ck.trusted), "decided": ck.decided, "not_decided": ck.not_decided}


def _merge(ck, part):
    seen = {(o["key"], o["target"], o["detail"]) for o in ck.obligations if o["target"] in ("*", "controls")}
    for o in part["obligations"]:
        if o["target"] in ("*", "controls"):
            k = (o["key"], o["target"], o["detail"])
            if k in seen:
                continue
            seen.add(k)
        ck.obligations.append(o)
    vseen = {(v["key"], v["target"]) for v in ck.violations}
    for v in part["violations"]:
        if (v["key"], v["target"]) not in vseen:
            ck.violations.append(v)
    ck.known_hits.extend(part["known_hits"])
    ck.infos.extend(i for i in part["infos"] if i not in ck.infos)
    for a in part["analysed"]:
        a = tuple(a)
        if a not in ck.analysed:
            ck.analysed.append(a)
    for fld in ("assumptions", "trusted"):
        cur = getattr(ck, fld)
        cur.extend(x for x in part[fld] if x not in cur)
    ck.decided = ck.decided or part["decided"]
    ck.not_decided = ck.not_decided or part["not_decided"]


def main(argv):
    if not argv:
        print("usage: verif check <id> [--tier quick|thorough]")
        return 2
    pid = argv[0]
    tier = os.environ.get("VERIF_TIER") or "quick"
    if "--tier" in argv:
        tier = argv[argv.index("--tier") + 1]
    seed = int(os.environ.get("VERIF_SEED", "0") or 0)
    if pid not in TARGETS:
        print("no check for", pid)
        return 2
    mod = importlib.import_module(".rules.%s" % pid.lower(), __package__)
    q, t = TARGETS[pid]
    targets = q if tier == "quick" else t
    ck = Check(pid, tier, seed)
    try:
        with extract.Workspace() as ws:
            facts = ws.lib_facts_many(targets)
            ck.ws = ws
            needs_ws = getattr(mod, "NEEDS_WS", False)
            if getattr(mod, "PER_TARGET", False) and len(targets) > 1 and not os.environ.get("VERIF_SERIAL"):
                # the rules of this property treat each target configuration on its own: one forked worker per target, results
                # merged in target order (same obligations as the serial run, only faster)
                if getattr(mod, "USES_CONTROLS", False):
                    from .rules import scans
                    try:
                        scans.control_facts(ws)          # built once here, inherited by the workers
                    except Exception:
                        pass
                _W.update(mod=mod, facts=facts, ws=ws, pid=pid, tier=tier, seed=seed, needs_ws=needs_ws)
                import multiprocessing
                with multiprocessing.get_context("fork").Pool(min(len(targets), os.cpu_count() or 4)) as pool:
                    parts = pool.map(_worker, targets)
                for part in parts:
                    _merge(ck, part)
            else:
                models = [TargetModel(facts[t]) for t in targets]
                mod.run(ck, models, tier, *([ws] if needs_ws else []))
    except extract.ExtractError as e:
        print("extraction failed: %s" % e)
        ck.ob("infra", "extraction", "*", False, "fact extraction failed: %s" % str(e)[:500])
    except Exception as e:
        traceback.print_exc()
        ck.ob("infra", "analysis-error", "*", False, "analysis raised %s: %s (failing closed)" % (type(e).__name__, str(e)[:500]))
    expl = ("Static analysis (abstract interpretation of rustc MIR + rule checks). Decided: %s  NOT decided: %s" % (ck.decided, ck.not_decided))
    return ck.finish(expl)
