"""Expression nodes (hash-consed-ish, immutable) and abstract integers with bit provenance.

An abstract integer `Int` is a pair (expression tree, optional vector of abstract bits). A bit is 0, 1 or a
width-1 expression (typically `bit(leaf, i)`): this is the "bit provenance" domain of DESIGN 2.2 (absint).
Arithmetic that cannot be tracked bit-wise keeps the expression only; bits are then derived lazily as
`bit(e, i)`. Nothing here evaluates repository code on concrete inputs: leaves stay symbolic throughout.
"""


def mask(w):
    return (1 << w) - 1


def to_signed(v, w):
    v &= mask(w)
    return v - (1 << w) if v >> (w - 1) else v


class E:
    __slots__ = ("op", "args", "w", "_h", "_sz")

    def __init__(self, op, args=(), w=None):
        self.op = op
        self.args = tuple(args)
        self.w = w
        self._h = hash((op, self.args, w))
        sz = 1
        for a in self.args:
            if isinstance(a, E):
                sz += a._sz
        self._sz = min(sz, 10 ** 9)

    def __hash__(self):
        return self._h

    def __eq__(self, o):
        if self is o:
            return True
        if not isinstance(o, E) or self._h != o._h or self.op != o.op or self.w != o.w or len(self.args) != len(o.args):
            return False
        for a, b in zip(self.args, o.args):
            if a is b:
                continue
            if a != b:
                return False
        return True

    def __ne__(self, o):
        return not self.__eq__(o)

    def __deepcopy__(self, memo):
        return self

    def __copy__(self):
        return self

    def is_const(self):
        return self.op == "const"

    @property
    def val(self):
        return self.args[0]

    def __repr__(self):
        return fmt(self, 6)


_INFIX = {"add": "+", "sub": "-", "mul": "*", "div": "/", "rem": "%", "and": "&", "or": "|", "xor": "^", "shl": "<<",
          "shr": ">>", "ashr": ">>s", "eq": "==", "ne": "!=", "ult": "<u", "ule": "<=u", "ugt": ">u", "uge": ">=u",
          "slt": "<s", "sle": "<=s", "sgt": ">s", "sge": ">=s"}


def fmt(e, depth=6):
    if not isinstance(e, E):
        return repr(e)
    if e.op == "const":
        v = e.args[0]
        return hex(v) if v > 9 else str(v)
    if e.op == "leaf":
        return str(e.args[0])
    if depth <= 0:
        return "…"
    if e.op in _INFIX and len(e.args) == 2:
        return "(%s %s %s)" % (fmt(e.args[0], depth - 1), _INFIX[e.op], fmt(e.args[1], depth - 1))
    if e.op == "bit":
        return "%s[%d]" % (fmt(e.args[0], depth - 1), e.args[1])
    if e.op == "extract":
        return "%s[%d..%d]" % (fmt(e.args[0], depth - 1), e.args[1], e.args[1] + e.w)
    if e.op == "bits":
        return "bits<%s>" % ",".join(fmt(b, 1) for b in e.args[:40])
    return "%s(%s)" % (e.op, ", ".join(fmt(a, depth - 1) for a in e.args))


def const(v, w):
    return E("const", (v & mask(w),), w)


def leaf(name, w=None):
    return E("leaf", (name,), w)


TRUE = const(1, 1)
FALSE = const(0, 1)

_COMM = {"add", "mul", "and", "or", "xor", "eq", "ne"}


def binop(op, a, b, w):
    """op in add sub mul div rem and or xor shl shr ashr (div/rem/shr unsigned unless sdiv/srem/ashr)."""
    if a.is_const() and b.is_const():
        x, y = a.val, b.val
        r = None
        if op == "add":
            r = x + y
        elif op == "sub":
            r = x - y
        elif op == "mul":
            r = x * y
        elif op == "and":
            r = x & y
        elif op == "or":
            r = x | y
        elif op == "xor":
            r = x ^ y
        elif op == "shl":
            r = x << y if y < w else 0
        elif op == "shr":
            r = x >> y if y < w else 0
        elif op == "ashr":
            r = to_signed(x, w) >> min(y, w - 1)
        elif op == "div" and y != 0:
            r = x // y
        elif op == "rem" and y != 0:
            r = x % y
        elif op == "sdiv" and y != 0:
            sx, sy = to_signed(x, w), to_signed(y, w)
            q = abs(sx) // abs(sy)
            r = q if (sx < 0) == (sy < 0) else -q
        elif op == "srem" and y != 0:
            sx, sy = to_signed(x, w), to_signed(y, w)
            q = abs(sx) // abs(sy)
            q = q if (sx < 0) == (sy < 0) else -q
            r = sx - q * sy
        if r is not None:
            return const(r, w)
    if b.is_const():
        y = b.val
        if y == 0 and op in ("add", "sub", "or", "xor", "shl", "shr", "ashr"):
            return a
        if y == 1 and op in ("mul", "div", "sdiv"):
            return a
        if y == 0 and op in ("mul", "and"):
            return const(0, w)
        if y == mask(w) and op == "and":
            return a
    if a.is_const():
        x = a.val
        if x == 0 and op in ("add", "or", "xor"):
            return b
        if x == 0 and op in ("mul", "and", "shl", "shr"):
            return const(0, w)
        if x == 1 and op == "mul":
            return b
        if x == mask(w) and op == "and":
            return b
    if op in _COMM and b._h < a._h:
        a, b = b, a
    return E(op, (a, b), w)


def cmpop(op, a, b):
    """op in eq ne ult ule ugt uge slt sle sgt sge; result width 1."""
    w = a.w
    if a.is_const() and b.is_const():
        x, y = a.val, b.val
        if op[0] == "s":
            x, y = to_signed(x, w), to_signed(y, w)
        r = {"eq": x == y, "ne": x != y, "lt": x < y, "le": x <= y, "gt": x > y, "ge": x >= y}[op[-2:]]
        return TRUE if r else FALSE
    if a == b:
        return TRUE if op in ("eq", "ule", "uge", "sle", "sge") else FALSE
    if op in _COMM and b._h < a._h:
        a, b = b, a
    return E(op, (a, b), 1)


def not_(a):
    if a.is_const():
        return const(~a.val, a.w)
    if a.op == "not":
        return a.args[0]
    if a.w == 1:
        neg = {"str_eq": "str_ne", "str_ne": "str_eq", "eq": "ne", "ne": "eq", "ult": "uge", "uge": "ult", "ule": "ugt", "ugt": "ule",
               "slt": "sge", "sge": "slt", "sle": "sgt", "sgt": "sle"}
        if a.op in neg:
            return E(neg[a.op], a.args, 1)
    return E("not", (a,), a.w)


def neg(a):
    if a.is_const():
        return const(-a.val, a.w)
    return E("neg", (a,), a.w)


def cast(e, tw, signed_from):
    """Integer conversion of a value of width e.w to width tw (sign-extending iff signed_from)."""
    fw = e.w
    if fw == tw:
        return e
    if e.is_const():
        v = to_signed(e.val, fw) if signed_from else e.val
        return const(v, tw)
    if tw < fw:
        if e.op in ("zext", "sext") and e.args[0].w == tw:
            return e.args[0]
        if e.op in ("zext", "sext") and e.args[0].w > tw:
            return cast(e.args[0], tw, False)
        if e.op == "trunc":
            return E("trunc", (e.args[0],), tw)
        return E("trunc", (e,), tw)
    return E("sext" if signed_from else "zext", (e,), tw)


def gamma(c, a, b):
    """c ? a : b"""
    if c.is_const():
        return a if c.val else b
    if a == b:
        return a
    if a.w == 1 and a.is_const() and b.is_const():
        return c if a.val == 1 else not_(c)
    return E("gamma", (c, a, b), a.w)


def bit(e, i):
    if e.is_const():
        return (e.val >> i) & 1
    if e.w == 1 and i == 0:
        return e
    if e.op == "bits":
        return e.args[i]
    if e.op == "extract":
        return bit(e.args[0], e.args[1] + i)
    if e.op == "trunc":
        return bit(e.args[0], i)
    if e.op == "zext":
        return bit(e.args[0], i) if i < e.args[0].w else 0
    if e.op == "sext":
        iw = e.args[0].w
        return bit(e.args[0], i if i < iw else iw - 1)
    return E("bit", (e, i), 1)


ATOMS = ("leaf", "field", "ret", "out", "deref", "fnaddr", "elem")


def is_atom(e):
    return e.op in ATOMS


def is_simple_bit(b):
    return b == 0 or b == 1 or (isinstance(b, E) and b.op == "bit" and b.args[0].op in ATOMS)


def from_bits(bits):
    """Canonical expression for a bit vector (LSB first)."""
    w = len(bits)
    if all(b == 0 or b == 1 for b in bits):
        v = 0
        for i, b in enumerate(bits):
            v |= b << i
        return const(v, w)
    # contiguous slice of one source, possibly zero- or sign-extended?
    b0 = bits[0]
    if isinstance(b0, E) and b0.op == "bit":
        src, k = b0.args
        n = 0
        for i, b in enumerate(bits):
            if isinstance(b, E) and b.op == "bit" and b.args[1] == k + i and b.args[0] == src:
                n = i + 1
            else:
                break
        if n == w or (n >= 8 and (all(b == 0 for b in bits[n:]) or all(b == bits[n - 1] for b in bits[n:]))):
            if k == 0 and src.w == n:
                inner = src
            else:
                inner = E("extract", (src, k), n)
            if n == w:
                return inner
            if all(b == 0 for b in bits[n:]):
                return E("zext", (inner,), w)
            return E("sext", (inner,), w)
    if w == 1:
        return bits[0] if isinstance(bits[0], E) else const(bits[0], 1)
    return E("bits", tuple(bits), w)


def bit_and(a, b):
    if a == 0 or b == 0:
        return 0
    if a == 1:
        return b
    if b == 1:
        return a
    if a == b:
        return a
    return binop("and", a, b, 1)


def bit_or(a, b):
    if a == 1 or b == 1:
        return 1
    if a == 0:
        return b
    if b == 0:
        return a
    if a == b:
        return a
    return binop("or", a, b, 1)


def bit_xor(a, b):
    if a == 0:
        return b
    if b == 0:
        return a
    if a == 1:
        return bit_not(b)
    if b == 1:
        return bit_not(a)
    if a == b:
        return 0
    return binop("xor", a, b, 1)


def bit_not(a):
    if a == 0:
        return 1
    if a == 1:
        return 0
    return not_(a)


def bit_gamma(c, a, b):
    """c is an E of width 1 (non-constant)."""
    # inside the arms the condition itself is known: (c ? c : y) = (c ? 1 : y), (c ? x : c) = (c ? x : 0), same for !c
    nc = not_(c)
    if a == c:
        a = 1
    elif a == nc:
        a = 0
    if b == c:
        b = 0
    elif b == nc:
        b = 1
    if a == b:
        return a
    if a == 1 and b == 0:
        return c
    if a == 0 and b == 1:
        return not_(c)
    ea = a if isinstance(a, E) else const(a, 1)
    eb = b if isinstance(b, E) else const(b, 1)
    return E("gamma", (c, ea, eb), 1)


# ------------------------------------------------------------------------------------------ affine normal form

def affine(e, w=None):
    """Linear normal form modulo 2^w: (dict atom -> coeff, const). Same-width casts are transparent; anything
    non-linear is an atom."""
    w = w or e.w
    terms = {}
    c = [0]

    def add(x, k):
        if x.is_const():
            c[0] = (c[0] + k * x.val) & mask(w)
            return
        if x.w == w:
            if x.op == "add":
                add(x.args[0], k)
                add(x.args[1], k)
                return
            if x.op == "sub":
                add(x.args[0], k)
                add(x.args[1], -k)
                return
            if x.op == "neg":
                add(x.args[0], -k)
                return
            if x.op == "mul":
                if x.args[0].is_const():
                    add(x.args[1], k * x.args[0].val)
                    return
                if x.args[1].is_const():
                    add(x.args[0], k * x.args[1].val)
                    return
            if x.op == "shl" and x.args[1].is_const():
                add(x.args[0], k * (1 << x.args[1].val))
                return
        terms[x] = (terms.get(x, 0) + k) & mask(w)
        if terms[x] == 0:
            del terms[x]

    add(e, 1)
    return terms, c[0]


def affine_equal(a, b, w=None):
    w = w or a.w
    return affine(a, w) == affine(b, w)


def affine_diff(a, b, w=None):
    """a - b in normal form."""
    w = w or a.w
    return affine(binop("sub", a, b, w), w)


# ------------------------------------------------------------------------------------------------ Int values

class Int:
    """Abstract machine integer / bool / raw address: width, signedness (of the static type), expression, bits."""
    __slots__ = ("w", "signed", "e", "bits")

    def __init__(self, w, signed, e, bits=None):
        self.w = w
        self.signed = signed
        if bits is not None:
            bits = tuple(bits)
            if all(is_simple_bit(b) for b in bits):
                e = from_bits(bits)
            if e.is_const():
                bits = None
        self.e = e
        self.bits = bits

    def __deepcopy__(self, memo):
        return self

    def get_bits(self):
        if self.bits is not None:
            return self.bits
        return tuple(bit(self.e, i) for i in range(self.w))

    def is_const(self):
        return self.e.is_const()

    def cval(self):
        return self.e.val

    def sval(self):
        return to_signed(self.e.val, self.w)

    def __repr__(self):
        return "Int%d(%s)" % (self.w, fmt(self.e, 5))


def int_const(v, w, signed=False):
    return Int(w, signed, const(v, w))


def int_leaf(name, w, signed=False):
    return Int(w, signed, leaf(name, w))


def _has_bits(*vs):
    return any(v.bits is not None or v.is_const() for v in vs)


def _ripple(ab, bb, cin):
    """Bit-exact addition while every carry stays constant (e.g. x - 1 with bit 0 of x known to be 1); else None."""
    out = []
    c = cin
    for x, y in zip(ab, bb):
        xs = x in (0, 1)
        ys = y in (0, 1)
        if xs and ys:
            t = x + y + c
            out.append(t & 1)
            c = t >> 1
        else:
            known, sym = (x, y) if xs else (y, x)
            if not (known in (0, 1)):
                return None
            # sum of one symbolic bit, one constant and a constant carry
            if known + c == 0:
                out.append(sym)
                c = 0
            elif known + c == 2:
                out.append(sym)
                c = 1
            else:
                return None
    return tuple(out)


def int_binop(op, a, b):
    """MIR BinOp on two Ints of equal width (shift amount may differ in width). Returns Int."""
    w, signed = a.w, a.signed
    if op in ("Add", "AddUnchecked", "AddWithOverflow"):
        bits = None
        if (a.is_const() or b.is_const()) and not (a.is_const() and b.is_const()):
            bits = _ripple(a.get_bits(), b.get_bits(), 0)
        return Int(w, signed, binop("add", a.e, b.e, w), bits)
    if op in ("Sub", "SubUnchecked", "SubWithOverflow"):
        bits = None
        if b.is_const() and not a.is_const():
            bits = _ripple(a.get_bits(), tuple(bit_not(x) for x in b.get_bits()), 1)
        return Int(w, signed, binop("sub", a.e, b.e, w), bits)
    if op in ("Mul", "MulUnchecked", "MulWithOverflow"):
        return Int(w, signed, binop("mul", a.e, b.e, w))
    if op == "Div":
        return Int(w, signed, binop("sdiv" if signed else "div", a.e, b.e, w))
    if op == "Rem":
        if not signed and b.is_const() and b.cval() > 0 and (b.cval() & (b.cval() - 1)) == 0:
            k = b.cval().bit_length() - 1
            ab = a.get_bits()
            return Int(w, signed, binop("rem", a.e, b.e, w), tuple(ab[:k]) + (0,) * (w - k))
        return Int(w, signed, binop("srem" if signed else "rem", a.e, b.e, w))
    if op in ("BitAnd", "BitOr", "BitXor"):
        eop = {"BitAnd": "and", "BitOr": "or", "BitXor": "xor"}[op]
        f = {"BitAnd": bit_and, "BitOr": bit_or, "BitXor": bit_xor}[op]
        e = binop(eop, a.e, b.e, w)
        ab, bb = a.get_bits(), b.get_bits()
        return Int(w, signed, e, tuple(f(x, y) for x, y in zip(ab, bb)))
    if op in ("Shl", "ShlUnchecked", "Shr", "ShrUnchecked"):
        left = op.startswith("Shl")
        if b.is_const():
            k = b.cval() % w
            ab = a.get_bits()
            if left:
                bits = (0,) * k + tuple(ab[:w - k])
                e = binop("shl", a.e, const(k, w), w)
            else:
                fill = ab[w - 1] if signed else 0
                bits = tuple(ab[k:]) + (fill,) * k
                e = binop("ashr" if signed else "shr", a.e, const(k, w), w)
            return Int(w, signed, e, bits)
        be = cast(b.e, w, False)
        return Int(w, signed, binop("shl" if left else ("ashr" if signed else "shr"), a.e, be, w))
    if op in ("Eq", "Ne", "Lt", "Le", "Gt", "Ge"):
        return int_cmp(op, a, b)
    if op == "Offset":
        return Int(w, signed, binop("add", a.e, b.e, w))
    raise NotImplementedError("binop " + op)


def int_cmp(op, a, b):
    signed = a.signed
    if op in ("Eq", "Ne"):
        # bit-level: comparison with a constant where at most one bit is non-constant
        for x, y in ((a, b), (b, a)):
            if y.is_const() and not x.is_const():
                xb = x.get_bits()
                yv = y.cval()
                nonconst = [(i, bb) for i, bb in enumerate(xb) if not (bb == 0 or bb == 1)]
                mismatch = any((bb == 0 or bb == 1) and bb != ((yv >> i) & 1) for i, bb in enumerate(xb))
                if mismatch:
                    return Int(1, False, FALSE if op == "Eq" else TRUE)
                if len(nonconst) == 1:
                    i, bb = nonconst[0]
                    want = (yv >> i) & 1
                    r = bb if want == 1 else not_(bb)
                    if op == "Ne":
                        r = not_(r)
                    return Int(1, False, r)
        return Int(1, False, cmpop("eq" if op == "Eq" else "ne", a.e, b.e))
    pre = "s" if signed else "u"
    return Int(1, False, cmpop(pre + op.lower(), a.e, b.e))


def int_not(a):
    return Int(a.w, a.signed, not_(a.e), tuple(bit_not(x) for x in a.get_bits()))


def int_neg(a):
    return Int(a.w, a.signed, neg(a.e))


def int_cast(a, tw, tsigned):
    """IntToInt (and pointer/int reinterpretation): resize by the *source* signedness, relabel signedness."""
    if a.w == tw:
        return Int(tw, tsigned, a.e, a.bits)
    ab = a.get_bits()
    if tw < a.w:
        bits = ab[:tw]
    else:
        fill = ab[a.w - 1] if a.signed else 0
        bits = tuple(ab) + (fill,) * (tw - a.w)
    return Int(tw, tsigned, cast(a.e, tw, a.signed), bits)


def int_gamma(c, a, b):
    """Merge of two Ints under condition c (E, width 1)."""
    if a.e == b.e:
        return a
    ab, bb = a.get_bits(), b.get_bits()
    bits = tuple(bit_gamma(c, x, y) for x, y in zip(ab, bb))
    return Int(a.w, a.signed, gamma(c, a.e, b.e), bits)


def bytes_of(a):
    """Little-endian bytes of an Int as a list of Int(8)."""
    bits = a.get_bits()
    out = []
    for k in range(a.w // 8):
        bs = bits[8 * k:8 * k + 8]
        out.append(Int(8, False, from_bits(bs), bs))
    return out


def int_from_bytes(bs, signed=False):
    bits = []
    for b in bs:
        bits.extend(b.get_bits())
    return Int(len(bits), signed, from_bits(tuple(bits)), tuple(bits))
