"""Control-flow graph utilities over a MIR body (normal edges and unwind edges kept apart)."""


def term_succs(t, include_unwind=False):
    k = t["k"]
    out = []
    if k == "goto":
        out = [t["target"]]
    elif k == "switch":
        out = [tg for _, tg in t["arms"]] + [t["otherwise"]]
    elif k in ("drop", "assert"):
        out = [t["target"]]
    elif k == "call":
        if t["target"] is not None and not (t["callee"]["k"] == "def" and t["callee"]["diverges"]):
            out = [t["target"]]
    elif k == "asm":
        out = list(t["targets"])
    if include_unwind and k in ("drop", "assert", "call", "asm"):
        u = t.get("unwind")
        if isinstance(u, int):
            out = out + [u]
    return out


class CFG:
    def __init__(self, body):
        self.body = body
        self.n = len(body["blocks"])
        self.succ = [term_succs(b["term"]) for b in body["blocks"]]
        self.succ_all = [term_succs(b["term"], True) for b in body["blocks"]]
        self.pred = [[] for _ in range(self.n)]
        for i, ss in enumerate(self.succ):
            for s in ss:
                self.pred[s].append(i)
        self._ipdom = None
        self._dom = None
        self._loops = None

    # ------------------------------------------------------------ reachability
    def reachable(self, start=0, all_edges=False):
        succ = self.succ_all if all_edges else self.succ
        seen = {start}
        st = [start]
        while st:
            x = st.pop()
            for s in succ[x]:
                if s not in seen:
                    seen.add(s)
                    st.append(s)
        return seen

    def reach_from(self, starts, all_edges=False, avoid=()):
        succ = self.succ_all if all_edges else self.succ
        seen = set()
        st = [s for s in starts if s not in avoid]
        seen.update(st)
        while st:
            x = st.pop()
            for s in succ[x]:
                if s not in seen and s not in avoid:
                    seen.add(s)
                    st.append(s)
        return seen

    # ------------------------------------------------------------ dominators (normal edges)
    def dominators(self):
        if self._dom is None:
            self._dom = _dominators(self.n, 0, self.succ, self.pred)
        return self._dom

    def dominates(self, a, b):
        """a dominates b (normal edges, from entry)."""
        dom = self.dominators()
        x = b
        while True:
            if x == a:
                return True
            p = dom.get(x)
            if p is None or p == x:
                return False
            x = p

    # ------------------------------------------------------------ post-dominators over normal exits
    def ipdom_normal(self, b):
        """Immediate post-dominator of block b considering only paths that reach a `return` (diverging paths
        are ignored); None if b cannot reach a return or has no post-dominator other than the exit."""
        if self._ipdom is None:
            n = self.n
            EXIT = n
            rets = [i for i, blk in enumerate(self.body["blocks"]) if blk["term"]["k"] == "return"]
            # blocks that can reach a return
            can = set(rets)
            st = list(rets)
            while st:
                x = st.pop()
                for p in self.pred[x]:
                    if p not in can:
                        can.add(p)
                        st.append(p)
            rsucc = [[] for _ in range(n + 1)]   # reversed graph: succ in reverse = preds
            rpred = [[] for _ in range(n + 1)]
            for i in range(n):
                if i not in can:
                    continue
                for s in self.succ[i]:
                    if s in can:
                        rsucc[s].append(i)
                        rpred[i].append(s)
            for r in rets:
                rsucc[EXIT].append(r)
                rpred[r].append(EXIT)
            self._ipdom = _dominators(n + 1, EXIT, rsucc, rpred)
            self._exit = EXIT
        p = self._ipdom.get(b)
        if p is None or p == self._exit or p == b:
            return None
        return p

    def postdominates_normal(self, a, b):
        """a post-dominates b over paths reaching a return."""
        self.ipdom_normal(0)
        x = b
        while True:
            if x == a:
                return True
            p = self._ipdom.get(x)
            if p is None or p == x or p == self._exit:
                return False
            x = p

    # ------------------------------------------------------------ loops
    def back_edges(self):
        if self._loops is None:
            dom = self.dominators()
            be = []
            for a in range(self.n):
                for s in self.succ[a]:
                    if a in dom and self.dominates(s, a):
                        be.append((a, s))
            self._loops = be
        return self._loops

    def loop_blocks(self):
        """Union of natural loops' bodies."""
        res = set()
        for a, h in self.back_edges():
            body = {h, a}
            st = [a]
            while st:
                x = st.pop()
                if x == h:
                    continue
                for p in self.pred[x]:
                    if p not in body:
                        body.add(p)
                        st.append(p)
            res |= body
        return res

    def in_loop(self, b):
        return b in self.loop_blocks()


def _dominators(n, entry, succ, pred):
    """Cooper–Harvey–Kennedy. Returns dict node -> idom (entry maps to itself); unreachable nodes absent."""
    order = []
    seen = {entry}
    stack = [(entry, iter(succ[entry]))]
    while stack:
        x, it = stack[-1]
        adv = False
        for s in it:
            if s not in seen:
                seen.add(s)
                stack.append((s, iter(succ[s])))
                adv = True
                break
        if not adv:
            order.append(x)
            stack.pop()
    rpo = list(reversed(order))
    idx = {b: i for i, b in enumerate(rpo)}
    idom = {entry: entry}

    def inter(a, b):
        while a != b:
            while idx[a] > idx[b]:
                a = idom[a]
            while idx[b] > idx[a]:
                b = idom[b]
        return a

    changed = True
    while changed:
        changed = False
        for b in rpo[1:]:
            new = None
            for p in pred[b]:
                if p in idom:
                    new = p if new is None else inter(p, new)
            if new is not None and idom.get(b) != new:
                idom[b] = new
                changed = True
    return idom
