"""A tiny prover for page/window inequalities between affine forms with alignment facts (DESIGN 2.2 'bounds').

Goal shape: prove  lhs >= rhs  where both are machine-word expressions built from +,-,constants, opaque atoms and
the two alignment idioms  x & !(P-1)  (align_down)  and  (x + P-1) & !(P-1)  (align_up), P a symbolic page size
assumed to be a power of two >= 4096 (OS contract). Each alignment term is replaced by  x - r  /  x + s  with a fresh
slack in [0, P-1]; the goal holds iff all atoms cancel and the worst-case slack choice keeps the difference >= 0.
Anything that cannot be derived is reported with the counter-example class, never assumed.
"""
from .expr import *

PAGE_MIN = 4096


def _is_page_mask(e, P):
    """e == !(P-1) ?"""
    if e.op == "not":
        inner = e.args[0]
        if inner.op == "sub" and inner.args[0] == P and inner.args[1].is_const() and inner.args[1].val == 1:
            return True
        if inner.op == "add" and inner.args[1].is_const() and inner.args[1].val == mask(inner.w) and inner.args[0] == P:
            return True
        if inner.op == "add" and inner.args[0].is_const() and inner.args[0].val == mask(inner.w) and inner.args[1] == P:
            return True
    if e.op == "neg" and e.args[0] == P:      # -P == !(P-1)
        return True
    return False


def find_page(e):
    """Find the symbolic page-size atom P used in masks !(P-1) inside e (first found)."""
    res = []

    def walk(x):
        if not isinstance(x, E) or res:
            return
        if x.op == "rem" and isinstance(x.args[1], E) and not x.args[1].is_const():
            res.append(x.args[1])                  # x % P: the other spelling of the page arithmetic
            return
        if x.op == "not" and x.args[0].op in ("sub", "add"):
            a = x.args[0]
            for cand in a.args:
                if isinstance(cand, E) and not cand.is_const() and _is_page_mask(x, cand):
                    res.append(cand)
                    return
        for a in x.args:
            walk(a)

    walk(e)
    return res[0] if res else None


class Lin:
    """sum(coeff * atom) + aP * P + sum(c_i * slack_i) + k   with slack_i in [0, P-1]."""

    def __init__(self):
        self.atoms = {}
        self.p = 0
        self.slacks = {}      # (kind, normal form of the aligned expression) -> coeff
        self.small = {}       # key -> (lo, hi) for small bounded terms (x % c)
        self.small_coef = {}
        self.k = 0

    def add_atom(self, a, c):
        self.atoms[a] = self.atoms.get(a, 0) + c
        if self.atoms[a] == 0:
            del self.atoms[a]


def linearise(e, P, out, coef, w):
    """Accumulate coef * e into `out` (a Lin), recognising alignment idioms w.r.t. page atom P."""
    if e.is_const():
        out.k += coef * to_signed(e.val, e.w) if e.val >> (e.w - 1) and e.val > (1 << (e.w - 1)) + (1 << (e.w - 2)) else coef * e.val
        return
    if P is not None and e == P:
        out.p += coef
        return
    if e.w == w or e.w is None:
        if e.op == "add":
            linearise(e.args[0], P, out, coef, w)
            linearise(e.args[1], P, out, coef, w)
            return
        if e.op == "sub":
            linearise(e.args[0], P, out, coef, w)
            linearise(e.args[1], P, out, -coef, w)
            return
        if e.op == "mul":
            for a, b in ((e.args[0], e.args[1]), (e.args[1], e.args[0])):
                if a.is_const():
                    linearise(b, P, out, coef * a.val, w)
                    return
        if e.op == "mul" and P is not None:
            # (y.next_multiple_of(P) / P) * P  (how `y.div_ceil(P) * P` is modelled): the division is exact, the product is the rounded value
            for a, b in ((e.args[0], e.args[1]), (e.args[1], e.args[0])):
                if b == P and isinstance(a, E) and a.op == "div" and a.args[1] == P and _is_page_multiple(a.args[0], P, w):
                    linearise(a.args[0], P, out, coef, w)
                    return
        if e.op == "shl" and e.args[1].is_const():
            linearise(e.args[0], P, out, coef * (1 << e.args[1].val), w)
            return
        if e.op == "and" and P is not None:
            for x, m in ((e.args[0], e.args[1]), (e.args[1], e.args[0])):
                if _is_page_mask(m, P):
                    # align_down(x) = x - r, r in [0, P-1]   unless x = y + (P-1): align_up(y) = y + s
                    y = _strip_round_up(x, P)
                    if y is not None:
                        linearise(y, P, out, coef, w)
                        if _is_page_multiple(y, P, w):
                            return          # rounding up what is already a multiple of the page size adds nothing
                        key = ("up", _nf(y, w, P))
                        out.slacks[key] = out.slacks.get(key, 0) + coef
                    else:
                        linearise(x, P, out, coef, w)
                        key = ("down", _nf(x, w, P))
                        out.slacks[key] = out.slacks.get(key, 0) - coef
                    return
    # x % c and x.next_multiple_of(c) with constant c: slacks in [0, c-1] (expressed against the page slack range when c <= PAGE_MIN)
    if e.op == "rem" and P is not None and e.args[1] == P and e.args[0].op == "sub" and e.args[0].args[0] == P and \
            e.args[0].args[1].op == "rem" and e.args[0].args[1].args[1] == P:
        # (P - y % P) % P = align_up(y) - y: the slack of rounding y up (how next_multiple_of is modelled)
        key = ("up", _nf(e.args[0].args[1].args[0], w, P))
        out.slacks[key] = out.slacks.get(key, 0) + coef
        return
    if e.op == "rem" and P is not None and e.args[1] == P:
        # x % P = x - align_down(x): the same slack as the align_down of x, with the opposite sign
        key = ("down", _nf(e.args[0], w, P))
        out.slacks[key] = out.slacks.get(key, 0) + coef
        return
    if e.op == "rem" and e.args[1].is_const() and 0 < e.args[1].val <= PAGE_MIN:
        key = ("rem", _nf(e.args[0], w), e.args[1].val)
        out.small[key] = out.small.get(key, (0, e.args[1].val - 1))
        out.small_coef[key] = out.small_coef.get(key, 0) + coef
        return
    if e.op == "ret" and isinstance(e.args[0], str) and e.args[0].endswith("::next_multiple_of"):
        out.add_atom(e, coef)
        return
    out.add_atom(e, coef)


def _is_page_multiple(y, P, w):
    """Is y, as an affine form, exactly one term of coefficient 1 that is itself `.. & !(P-1)` (plus multiples of P)?"""
    terms, c = affine(y, w)
    rest = {t: k for t, k in terms.items() if t != P}
    # x + (P - x % P) % P  (how next_multiple_of is modelled): a multiple of P
    for t, k in rest.items():
        if isinstance(t, E) and t.op == "rem" and t.args[1] == P and to_signed(k, w) == 1 and t.args[0].op == "sub" and t.args[0].args[0] == P \
                and t.args[0].args[1].op == "rem" and t.args[0].args[1].args[1] == P:
            x_ = t.args[0].args[1].args[0]
            tx, cx = affine(x_, w)
            others = {a: b for a, b in rest.items() if a != t}
            if {a: to_signed(b, w) for a, b in _mod_page(others, P).items()} == {a: to_signed(b, w) for a, b in _mod_page(tx, P).items()} \
                    and to_signed(cx, w) == to_signed(c, w):
                return True
    if to_signed(c, w) != 0 or not rest:
        return False
    # every remaining term is a multiple of P: `.. & !(P-1)`, or a product with P as a factor (`y.div_ceil(P) * P`)
    return all(isinstance(t, E) and ((t.op == "and" and any(_is_page_mask(m, P) for m in t.args)) or (t.op == "mul" and any(m == P for m in t.args)))
               for t in rest)


def _mod_page(terms, P):
    """Drop the terms that are multiples of the page size (P itself, `.. & !(P-1)`): the slack of rounding y up or down to a page
    boundary depends on y modulo P only."""
    return {t: k for t, k in terms.items() if t != P and not (isinstance(t, E) and t.op == "and" and any(_is_page_mask(m, P) for m in t.args))}


def _nf(x, w, P=None):
    t, c = affine(x, w)
    if P is not None:
        t = _mod_page(t, P)
    return (frozenset(t.items()), c)


def _strip_round_up(x, P):
    """If x == y + (P - 1) return y."""
    terms, c = affine(x, x.w)
    # want: x = y + P - 1  -> remove one P and add 1
    if P in terms and to_signed(terms[P], x.w) >= 1:
        # build y as expression: x - P + 1
        y = binop("add", binop("sub", x, P, x.w), const(1, x.w), x.w)
        # sanity: affine(y) must not contain P with coeff (terms[P]-1) != 0 unless original had more
        t2, _ = affine(y, x.w)
        if to_signed(t2.get(P, 0), x.w) == to_signed(terms[P], x.w) - 1:
            return y
    return None


def prove_ge(lhs, rhs, w, P=None, atom_lower=None):
    """Try to prove lhs >= rhs (as unbounded integers, i.e. assuming no wrap-around of user-space addresses).
    Returns (ok, explanation). atom_lower: dict atom -> lower bound (e.g. a length >= 0)."""
    if P is None:
        P = find_page(lhs) or find_page(rhs)
    lin = Lin()
    linearise(lhs, P, lin, 1, w)
    linearise(rhs, P, lin, -1, w)
    # atoms must cancel, except atoms with a known lower bound and positive coefficient
    k = lin.k
    for a, c in list(lin.atoms.items()):
        lb = (atom_lower or {}).get(a)
        if c > 0 and lb is not None:
            k += c * lb
            continue
        return False, "terms do not cancel: %+d * %s remains in (covered end) - (written end)" % (c, fmt(a, 4))
    # worst case over small bounded terms
    for key, c in lin.small_coef.items():
        lo_, hi_ = lin.small[key]
        k += c * (lo_ if c > 0 else hi_)
    # worst case over slacks in [0, P-1]
    pcoef = lin.p
    for c in lin.slacks.values():
        if c < 0:
            pcoef += c
            k -= c
    if pcoef > 0:
        lo = pcoef * PAGE_MIN + k
        if lo >= 0:
            return True, "difference >= %d*P%+d >= %d with P >= %d" % (pcoef, k, lo, PAGE_MIN)
        return False, "difference can be as low as %d*P%+d" % (pcoef, k)
    if pcoef == 0:
        if k >= 0:
            return True, "difference >= %d" % k
        return False, "difference can be as low as %d (worst page offset)" % k
    return False, "difference unbounded below (%d*P%+d)" % (pcoef, k)
