"""`./verif selftest [--only substr] [--jobs N]` — validates the checker in both directions on scratch copies (DESIGN section 6)."""
import os, sys, shutil, subprocess, tempfile, json, re, time
from concurrent.futures import ThreadPoolExecutor

VERIF = os.path.dirname(os.path.dirname(os.path.abspath(__file__)))
REPO = "/repo"


def apply(m, d):
    for e in m["edits"]:
        f, old, new = e[0], e[1], e[2]
        cnt = e[3] if len(e) > 3 else 1
        p = os.path.join(d, f)
        s = open(p).read()
        if cnt == "first":
            if s.count(old) < 1:
                return "anchor not found in %s" % f
            s = s.replace(old, new, 1)
            open(p, "w").write(s)
            continue
        if s.count(old) != cnt:
            return "anchor matches %d times (expected %d) in %s" % (s.count(old), cnt, f)
        s = s.replace(old, new)
        open(p, "w").write(s)
    return None


def run_check(d, pid, tier):
    env = dict(os.environ)
    env["VERIF_REPO"] = d
    env["VERIF_EVIDENCE_DIR"] = os.path.join(d, "evidence")
    r = subprocess.run([os.path.join(VERIF, "verif"), "check", pid, "--tier", tier], env=env, stdout=subprocess.PIPE, stderr=subprocess.STDOUT, text=True)
    rules = re.findall(r"^\s+rule (\S+) \[([^\]]+)\]", r.stdout, re.M)
    return r.returncode, rules, r.stdout


def one(m):
    d = tempfile.mkdtemp(prefix="ipp-mut-")
    try:
        for n in ("src", "tests"):
            shutil.copytree(os.path.join(REPO, n), os.path.join(d, n))
        for n in ("Cargo.toml", "Cargo.lock"):
            shutil.copy(os.path.join(REPO, n), os.path.join(d, n))
        err = apply(m, d)
        if err:
            return m, "STALE", err, []
        res = []
        checks = [m["prop"]] + list(m["also"])
        verdict = "ok"
        detail = ""
        for i, pid in enumerate(checks):
            rc, rules, out = run_check(d, pid, m["tier"])
            names = sorted({r[0] for r in rules})
            res.append((pid, rc, names))
            if m["kind"] == "break" and i == 0:
                if rc == 0:
                    verdict, detail = "MISSED", "check %s exits 0" % pid
                elif "infra" in names:
                    verdict, detail = "INFRA", out[-600:]
                elif m["rules"] and not (set(names) & set(m["rules"])):
                    verdict, detail = "OTHER-RULE", "fired %s, expected one of %s" % (names, m["rules"])
            if m["kind"] == "silent" and rc != 0:
                verdict, detail = "FALSE-ALARM", "%s: %s" % (pid, [r[1] for r in rules][:4])
        return m, verdict, detail, res
    finally:
        shutil.rmtree(d, ignore_errors=True)


ALL = ["C%02d" % i for i in range(1, 18)]


def one_refactor(path):
    d = tempfile.mkdtemp(prefix="ipp-rf-")
    try:
        for n in ("src", "tests"):
            shutil.copytree(os.path.join(REPO, n), os.path.join(d, n))
        for n in ("Cargo.toml", "Cargo.lock"):
            shutil.copy(os.path.join(REPO, n), os.path.join(d, n))
        r = subprocess.run(["git", "apply", path], cwd=d, stdout=subprocess.PIPE, stderr=subprocess.STDOUT, text=True)
        if r.returncode != 0:
            return path, "STALE", r.stdout[:200], []
        bad = []
        for pid in ALL:
            rc, rules, out = run_check(d, pid, "quick")
            if rc != 0:
                bad.append((pid, sorted({x[0] for x in rules})))
        return path, ("ok" if not bad else "FALSE-ALARM"), "", bad
    finally:
        shutil.rmtree(d, ignore_errors=True)


def refactors(argv):
    import glob
    files = sorted(glob.glob(os.path.join(VERIF, "refactors", "bold" if "--bold" in argv else "", "*.diff")))
    if "--only" in argv:
        o = argv[argv.index("--only") + 1]
        files = [f for f in files if o in f]
    jobs = int(argv[argv.index("--jobs") + 1]) if "--jobs" in argv else 6
    t0 = time.time()
    nbad = 0
    with ThreadPoolExecutor(max_workers=jobs) as ex:
        limits = {}
        lf = os.path.join(os.path.dirname(files[0]), "KNOWN_LIMITS") if files else None
        if lf and os.path.exists(lf):
            for line in open(lf):
                if line.strip():
                    limits[line.split()[0]] = line.split(None, 1)[1].strip() if len(line.split(None, 1)) > 1 else ""
        for path, verdict, detail, bad in ex.map(one_refactor, files):
            name = os.path.basename(path)
            if verdict == "FALSE-ALARM" and name in limits:
                verdict = "KNOWN-LIMIT"
            print("%-22s %-11s %s %s" % (name, verdict, detail, bad if bad else ""))
            if verdict not in ("ok", "KNOWN-LIMIT"):
                nbad += 1
    print("refactors: %d patches, %d not silent, %.0fs" % (len(files), nbad, time.time() - t0))
    return 1 if nbad else 0


def main(argv):
    if "--refactors" in argv:
        return refactors(argv)
    if "--isa" in argv:
        from . import isacheck
        return isacheck.main(argv)
    sys.path.insert(0, os.path.join(VERIF, "mutants"))
    import catalog
    ms = catalog.M
    only = None
    jobs = 6
    if "--only" in argv:
        only = argv[argv.index("--only") + 1]
    if "--jobs" in argv:
        jobs = int(argv[argv.index("--jobs") + 1])
    if only:
        ms = [m for m in ms if only in m["id"] or only == m["prop"]]
    t0 = time.time()
    bad = 0
    results = []
    with ThreadPoolExecutor(max_workers=jobs) as ex:
        for m, verdict, detail, res in ex.map(one, ms):
            results.append({"id": m["id"], "prop": m["prop"], "kind": m["kind"], "verdict": verdict, "detail": detail, "checks": res})
            flag = "" if verdict == "ok" else "   <<<<<< " + detail[:300]
            print("%-28s %-6s %-7s %-11s %s%s" % (m["id"], m["prop"], m["kind"], verdict, " ".join("%s:%d%s" % (p, rc, ("[" + ",".join(n) + "]") if n else "") for p, rc, n in res), flag))
            if verdict != "ok":
                bad += 1
    print("selftest: %d variants, %d not as expected, %.0fs" % (len(ms), bad, time.time() - t0))
    with open(os.path.join(VERIF, "mutants", "last_selftest.json"), "w") as f:
        json.dump(results, f, indent=1)
    return 1 if bad else 0
