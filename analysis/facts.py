"""Loading and indexing of mirfacts JSON (one crate, one target)."""
import json


# Functions the crate declares in its own `extern` blocks are identified by their symbol, wherever the declaration lives: the rules
# name them by the module path they have on the pinned tree, and a declaration moved to another module is given that name.
EXTERN_HOME = {}
for _b in ("VirtualProtect", "VirtualAlloc", "VirtualFree", "FlushInstructionCache", "GetCurrentProcess", "GetSystemInfo"):
    EXTERN_HOME[_b] = "injector_core::winapi::" + _b
EXTERN_HOME["__clear_cache"] = "injector_core::linuxapi::__clear_cache"
for _b in ("sys_dcache_flush", "sys_icache_invalidate"):
    EXTERN_HOME[_b] = "injector_core::macosapi::" + _b


def canon_foreign(path, foreign):
    if foreign and isinstance(path, str):
        base = path.rsplit("::", 1)[-1]
        if base in EXTERN_HOME and not path.startswith(("libc::", "mach2::", "std::", "core::")):
            return EXTERN_HOME[base]
    return path


RAW_WRITE_FNS = {
    "std::ptr::copy_nonoverlapping", "std::intrinsics::copy_nonoverlapping", "std::ptr::copy", "std::intrinsics::copy",
    "std::ptr::write", "std::ptr::write_volatile", "std::ptr::write_unaligned", "std::ptr::write_bytes",
    "std::ptr::mut_ptr::<impl *mut T>::write", "std::ptr::mut_ptr::<impl *mut T>::write_bytes",
    "std::ptr::mut_ptr::<impl *mut T>::write_volatile", "std::ptr::mut_ptr::<impl *mut T>::write_unaligned",
    "std::ptr::mut_ptr::<impl *mut T>::copy_from", "std::ptr::mut_ptr::<impl *mut T>::copy_from_nonoverlapping",
    "std::ptr::const_ptr::<impl *const T>::copy_to", "std::ptr::const_ptr::<impl *const T>::copy_to_nonoverlapping",
    "std::ptr::mut_ptr::<impl *mut T>::copy_to", "std::ptr::mut_ptr::<impl *mut T>::copy_to_nonoverlapping",
    "std::ptr::swap", "std::ptr::swap_nonoverlapping", "std::ptr::replace", "std::ptr::mut_ptr::<impl *mut T>::swap",
    "std::ptr::mut_ptr::<impl *mut T>::replace", "std::slice::from_raw_parts_mut", "std::ptr::slice_from_raw_parts_mut",
}


class Facts:
    def __init__(self, data, path=None):
        self.data = data
        self.path = path
        self.crate = data["crate"]
        self.target = data["target"]
        self.ptr_bits = data["pointer_width"]
        self.bodies = {}      # (path, promoted) -> body
        for b in data["bodies"]:
            self.bodies[(b["path"], b["promoted"])] = b
        self.adts = {a["path"]: a for a in data["adts"]}
        self.fns = {f["path"]: f for f in data["fns"]}
        self.macros = {m["name"]: m for m in data["macros"]}
        self.impls = data["impls"]
        self.foreign = data["foreign"]

    @classmethod
    def load(cls, path):
        with open(path) as f:
            return cls(json.load(f), path)

    def body(self, path, promoted=None):
        return self.bodies.get((path, promoted))

    def fn_bodies(self):
        for (p, pr), b in self.bodies.items():
            if pr is None and b["def_kind"] in ("Fn", "AssocFn", "Closure"):
                yield b

    def find_fns(self, suffix):
        return [b for b in self.fn_bodies() if b["path"] == suffix or b["path"].endswith("::" + suffix)]

    def callees_of(self, body):
        out = []
        for blk in body["blocks"]:
            t = blk["term"]
            if t["k"] == "call" and t["callee"]["k"] == "def":
                c = t["callee"]
                r = c.get("resolved")
                out.append((canon_foreign((r["path"] if r else c["path"]), c["foreign"]), c["foreign"], (r["local"] if r else c["local"]), t))
            elif t["k"] == "call":
                out.append(("<indirect>", False, False, t))
            elif t["k"] == "asm":
                out.append(("<asm>", True, False, t))
        return out

    def effectful(self, path, _seen=None):
        """Does crate function `path` (transitively through crate-local callees) reach a foreign call, inline asm or a raw
        memory write primitive?"""
        if not hasattr(self, "_eff"):
            self._eff = {}
        if path in self._eff:
            return self._eff[path]
        seen = _seen or set()
        if path in seen:
            return False
        seen.add(path)
        body = self.body(path)
        res = False
        if body is not None:
            for name, foreign, local, t in self.callees_of(body):
                if foreign or name in RAW_WRITE_FNS or name == "<asm>":
                    res = True
                    break
                if local and self.body(name) is not None and self.effectful(name, seen):
                    res = True
                    break
            if not res:
                # closures defined in the function are run by whoever it hands them to: their effects are effects of the function
                pre = path + "::{closure#"
                for b2 in self.fn_bodies():
                    if b2["path"].startswith(pre) and self.effectful(b2["path"], seen):
                        res = True
                        break
        self._eff[path] = res
        return res

    def impls_of(self, trait):
        return [i for i in self.impls if i["trait"] == trait]

    def has_impl(self, trait, adt_path):
        for i in self.impls:
            if i["trait"] == trait and i["self_ty"].get("path") == adt_path:
                return True
        return False


# ---------------------------------------------------------------- pretty printer (debug aid)

def fmt_place(p):
    s = "_%d" % p["l"]
    for e in p["p"]:
        k = e["k"]
        if k == "deref":
            s = "(*%s)" % s
        elif k == "field":
            s = "%s.%s" % (s, e["name"] if e["name"] is not None else e["i"])
        elif k == "index":
            s = "%s[_%d]" % (s, e["local"])
        elif k == "cindex":
            s = "%s[%s%d]" % (s, "-" if e["from_end"] else "", e["offset"])
        elif k == "subslice":
            s = "%s[%d..%s%d]" % (s, e["from"], "-" if e["from_end"] else "", e["to"])
        elif k == "downcast":
            s = "(%s as %s)" % (s, e["name"])
        else:
            s = "%s.?" % s
    return s


def fmt_op(o):
    k = o["k"]
    if k in ("copy", "move"):
        return ("move " if k == "move" else "") + fmt_place(o["place"])
    if k == "fn":
        return "fn<%s>" % o["path"]
    if k == "const":
        v = o["val"]
        extra = ""
        if o.get("uneval"):
            extra = "{%s%s}" % (o["uneval"]["path"], "" if o["uneval"]["promoted"] is None else "#%d" % o["uneval"]["promoted"])
        if v["k"] == "int":
            return "const %s:%s%s" % (v["bits"], o["ty"]["s"], extra)
        return "const<%s %s>%s" % (v["k"], o["s"][:40], extra)
    return "?" + k


def fmt_rv(rv):
    k = rv["k"]
    if k == "use":
        return fmt_op(rv["op"])
    if k in ("ref", "rawptr"):
        return "%s%s %s" % ("&" if k == "ref" else "&raw ", "mut" if rv["mut"] else "", fmt_place(rv["place"]))
    if k == "cast":
        return "%s as %s (%s)" % (fmt_op(rv["op"]), rv["ty"]["s"], rv["kind"])
    if k == "binop":
        return "%s(%s, %s)" % (rv["op"], fmt_op(rv["a"]), fmt_op(rv["b"]))
    if k == "unop":
        return "%s(%s)" % (rv["op"], fmt_op(rv["a"]))
    if k == "discr":
        return "discriminant(%s)" % fmt_place(rv["place"])
    if k == "aggregate":
        kd = rv["kind"]
        name = kd.get("path", kd["k"])
        if kd["k"] == "adt":
            name += "::" + kd["variant_name"]
        return "%s{%s}" % (name, ", ".join(fmt_op(o) for o in rv["ops"]))
    if k == "repeat":
        return "[%s; %s]" % (fmt_op(rv["op"]), rv["count"])
    if k == "copy_for_deref":
        return "deref_copy %s" % fmt_place(rv["place"])
    return "?%s %s" % (k, rv.get("s", ""))


def fmt_callee(c):
    if c["k"] == "def":
        r = c.get("resolved")
        p = r["path"] if r else c["path"]
        return p
    return "indirect(%s)" % fmt_op(c["op"])


def fmt_body(b):
    out = []
    out.append("fn %s%s  [%s] args=%d  %s:%d" % (b["path"], "" if b["promoted"] is None else "#promoted%d" % b["promoted"],
                                              b["def_kind"], b["arg_count"], b["span"]["file"], b["span"]["line"]))
    names = {}
    for d in b["debug"]:
        if not d["place"]["p"]:
            names[d["place"]["l"]] = d["name"]
    for i, l in enumerate(b["locals"]):
        out.append("  let _%d: %s%s" % (i, l["ty"]["s"], "  // " + names[i] if i in names else ""))
    for i, blk in enumerate(b["blocks"]):
        out.append("  bb%d%s:" % (i, " (cleanup)" if blk["cleanup"] else ""))
        for st in blk["stmts"]:
            if st["k"] == "assign":
                out.append("    %s = %s    @%d" % (fmt_place(st["place"]), fmt_rv(st["rv"]), st["span"]["line"]))
            elif st["k"] == "set_discr":
                out.append("    discriminant(%s) = %d" % (fmt_place(st["place"]), st["variant"]))
            else:
                out.append("    %s" % st["k"])
        t = blk["term"]
        k = t["k"]
        if k == "call":
            out.append("    %s = %s(%s) -> %s unwind %s   @%d" % (fmt_place(t["dest"]), fmt_callee(t["callee"]),
                       ", ".join(fmt_op(a) for a in t["args"]), t["target"], t["unwind"], t["span"]["line"]))
        elif k == "switch":
            out.append("    switch %s %s otherwise bb%d" % (fmt_op(t["discr"]), t["arms"], t["otherwise"]))
        elif k == "drop":
            out.append("    drop(%s : %s) -> %d unwind %s" % (fmt_place(t["place"]), t["ty"]["s"], t["target"], t["unwind"]))
        elif k == "assert":
            out.append("    assert(%s == %s, %s) -> %d unwind %s" % (fmt_op(t["cond"]), t["expected"], t["msg"], t["target"], t["unwind"]))
        elif k == "goto":
            out.append("    goto bb%d" % t["target"])
        else:
            out.append("    %s" % k)
    return "\n".join(out)
