"""Per-target view of the crate: discovered roles (architecture routines, restore guard, install roots, lock) and
cached abstract-interpretation results for root functions. Roles are discovered by meaning (DESIGN 2.4 'Names')."""
from .expr import *
from .interp import Machine, Unsupported, Adt, Opaque, Ref, VecV
from . import cfg as cfgmod


def arch_of(target):
    a = target.split("-")[0]
    if a.startswith("armv7") or a.startswith("thumbv7") or a == "arm":
        return "arm"
    return a


def os_of(target):
    if "linux" in target:
        return "linux"
    if "darwin" in target or "apple" in target:
        return "macos"
    if "windows" in target:
        return "windows"
    return "other"


class TargetModel:
    def __init__(self, facts):
        self.facts = facts
        self.target = facts.target
        self.arch = arch_of(facts.target)
        self.os = os_of(facts.target)
        self.ptr_bits = facts.ptr_bits
        self._variants = {}
        self._errors = {}
        self.machines = {}

    def cls(self):
        return "%s-%s" % (self.arch, self.os)

    # ------------------------------------------------------------------ evaluation
    def root_args(self, m, body, overrides=None):
        names = {d["place"]["l"]: d["name"] for d in body["debug"] if not d["place"]["p"]}
        args = []
        for i in range(1, body["arg_count"] + 1):
            n = names.get(i, "arg%d" % i)
            if overrides and n in overrides:
                args.append(overrides[n])
            else:
                args.append(m.sym_value(leaf(n), body["locals"][i]["ty"]))
        return args

    def variants(self, path, overrides=None, tag=None, argmap=None, gmap=None, **mopts):
        key = (path, tag)
        if key in self._variants:
            return self._variants[key]
        body = self.facts.body(path)
        if body is None:
            raise Unsupported("no body " + path)
        if "summaries" not in mopts and not mopts.get("havoc_loops"):
            # the placement search is a unit of its own for every rule that follows an installation: it is summarised in the roots even
            # when a refactoring left no loop in it (the loop sits in a generic helper it calls)
            forced = self.allocator_summaries() - {path}
            if forced:
                mopts = dict(mopts, summaries=forced)
        m = Machine(self.facts, **mopts)
        args = self.root_args(m, body, overrides)
        if argmap is not None:
            args = [argmap(a) for a in args]
        res = m.run_fn(path, args, gmap)
        self._variants[key] = res
        self.machines[key] = m
        return res

    def allocator_summaries(self):
        if not hasattr(self, "_alloc_summ"):
            self._alloc_summ = set()
            try:
                from .rules.codewrite import allocator_fns
                self._alloc_summ = {p for p in allocator_fns(self) if "::{closure#" not in p}
            except Exception:
                self._alloc_summ = set()
        return self._alloc_summ

    def variants_for_decode(self, path):
        """Variants of an install root for the rules that decode the written bytes. If-conversion may have folded a case split
        of an encoder into the bytes (gamma(c, bytes_a, bytes_b)); the decode rules need one instruction sequence per path,
        so such conditions are kept as separate paths and the root is evaluated again (at most three rounds). Not used on
        32-bit ARM, where the forced-boolean literal is legitimately a gamma of two function addresses and the entry classes
        are refined separately."""
        key = (path, "decode")
        if key in self._variants:
            return self._variants[key]
        res = self.variants(path)
        mkey = (path, None)
        if self.arch != "arm":
            conds = set()
            for rnd in range(3):
                new = gamma_conds_in_code_writes(res) - conds
                if not new or len(conds | new) > 6:
                    break
                conds |= new
                res = self.variants(path, tag=("decode", rnd), split_on=frozenset(conds))
                mkey = (path, ("decode", rnd))
        self._variants[key] = res
        self.machines[key] = self.machines[mkey]
        return res

    def try_variants(self, path, **kw):
        try:
            return self.variants(path, **kw)
        except Unsupported as e:
            self._errors[path] = str(e)
            return None

    # ------------------------------------------------------------------ roles
    def fn_paths(self):
        return [b["path"] for b in self.facts.fn_bodies() if b["def_kind"] != "Closure"]

    def raw_write_fns(self):
        """Crate functions whose own body contains a raw memory write call (who-may-write, direct sites)."""
        out = []
        for b in self.facts.fn_bodies():
            for blk in b["blocks"]:
                t = blk["term"]
                if t["k"] == "call" and t["callee"]["k"] == "def":
                    n = (t["callee"].get("resolved") or t["callee"])["path"]
                    if n in ("std::ptr::copy_nonoverlapping", "std::intrinsics::copy_nonoverlapping"):
                        out.append((b["path"], t))
        return out

    def arch_routines(self):
        """Implementations of the crate's patch trait: (method name, path)."""
        res = []
        for p, f in self.facts.fns.items():
            io = f.get("impl_of")
            if io and io.get("trait") and io["trait"].startswith("injector_core::") and self.facts.body(p) is not None:
                res.append((p.split("::")[-1], p))
        return sorted(res)

    def drop_impls(self):
        res = []
        for p, f in self.facts.fns.items():
            io = f.get("impl_of")
            if io and io.get("trait") == "std::ops::Drop":
                res.append((io["self_ty"].get("path"), p))
        return res

    def guard_drop(self):
        """(adt path, drop fn path) of the restore guard: the crate ADT whose Drop reaches a raw code write."""
        for adt, p in self.drop_impls():
            vs = self.try_variants(p)
            if vs and any(e.kind == "raw_write" for s in vs for e in s.trace):
                return adt, p
        return None, None

    def public_fns(self):
        return [p for p, f in self.facts.fns.items() if f["reachable"]]

    def install_roots(self):
        """Public functions that reach a raw code write."""
        out = []
        for p in sorted(self.public_fns()):
            vs = self.try_variants(p)
            if vs and any(e.kind == "raw_write" for s in vs for e in s.trace):
                out.append(p)
        return out


def gamma_conds_in_code_writes(variants):
    """Conditions c of gamma(c, a, b) nodes inside the bytes of raw code writes."""
    from .expr import E, Int
    out = set()
    seen = set()

    def walk(e, d=0):
        if not isinstance(e, E) or d > 60 or id(e) in seen:
            return
        seen.add(id(e))
        if e.op == "gamma":
            out.add(e.args[0])
        for a in e.args:
            if isinstance(a, E):
                walk(a, d + 1)
            elif isinstance(a, tuple):
                for x in a:
                    walk(x, d + 1)
    for v in variants:
        for ev in v.trace:
            if ev.kind == "raw_write" and ev.extra and ev.extra.get("src_kind") == "bytes":
                for b in ev.extra["src"] or []:
                    if isinstance(b, Int):
                        walk(b.e)
    return out


def subst_int(val, pred, fn):
    """Rebuild an abstract value replacing every Int for which pred(int) holds by fn(int)."""
    from .interp import Adt, Arr, Tup, Ref, Cell
    from .expr import Int
    if isinstance(val, Int):
        return fn(val) if pred(val) else val
    if isinstance(val, Adt):
        return Adt(val.path, val.variant, val.vname, [subst_int(f, pred, fn) for f in val.fields], val.fnames)
    if isinstance(val, Arr):
        return Arr([subst_int(f, pred, fn) for f in val.elems])
    if isinstance(val, Tup):
        return Tup([subst_int(f, pred, fn) for f in val.elems])
    if isinstance(val, Ref):
        val.cell.val = subst_int(val.cell.val, pred, fn)
        return val
    return val
