"""C10 — forced boolean result: only for bool functions, exactly the value, nothing else."""
from .common import *
from .codewrite import *
from . import patches

PER_TARGET = True      # every rule below looks at one target configuration at a time (check.py may fork one worker per target)
DECIDED = ("R10.1: in the public forced-boolean install root, every path that allocates or writes is dominated by a refusal test that depends "
           "on the signature recorded for the target and whose failing edge diverges first; R10.2: that test is not an affix/substring test of "
           "the whole signature text (refutable by a nested fn type such as `fn() -> fn() -> bool`): it must compare an extracted return type "
           "for equality with `bool`; R10.3: the stub decodes to exactly `result register := value ; return` (x86-64: mov into rax/eax/al with "
           "bit 0 = the requested value and bits 1..7 = 0, then ret; AArch64: MOVZ w/x0 then RET x30; ARM: branch to a crate function whose "
           "body returns the constant selected by the value), writes no other register and has no stack effect; R10.4: the stub fits its mapping; "
           "R10.5: on every returning path of the forced-boolean roots the entry patch decodes to a transfer to the stub (the decision of "
           "C01 R1.1 / C15 / C16 restricted to these roots: no call returns the value unless it gets to the stub); R10.6: entry patch and stub of these roots consist of branches, NOPs and "
           "moves into caller-saved scratch registers only (C13 R13.1-R13.3 on these roots); R10.8: the stub is written before the entry branches to it (C01 R1.8); R10.7: the stub stays mapped while the "
           "injector lives (who-may-release and restore-before-release, C12 R12.3/R12.4)")
NOT_DECIDED = ("exactness of the string-parsing helper over all type-name strings (only the deny-listed affix shapes and the equality "
               "requirement are decided); that the CPU executes the stub as tabulated")

AFFIX = ("str_ends_with", "str_starts_with", "str_contains")


def uses_leaf(e, pred, depth=0):
    if not isinstance(e, E) or depth > 40:
        return False
    if pred(e):
        return True
    return any(uses_leaf(a, pred, depth + 1) for a in e.args if isinstance(a, E))


def boolean_roots(tm):
    """Public install roots that take a bool and no replacement pointer."""
    return [(p, f, b) for p, f, r, b in patches.roots_and_roles(tm) if r is None and b is not None]


GATE_PLUMBING = ("PartialEq", "Option::<T>::map", "Option::<T>::as_deref", "Option::<T>::as_ref", "Option::<T>::is_some_and",
                 "Option::<T>::is_none_or", "Option::<T>::map_or", "Option::<T>::unwrap_or", "Option::<T>::copied", "Option::<T>::filter",
                 "<impl str>::trim", "std::ops::FnMut::call_mut", "std::ops::FnOnce::call_once", "std::ops::Fn::call", "Deref>::deref",
                 "std::convert::AsRef", "std::borrow::Borrow")


def run(ck, models, tier):
    ck.decided, ck.not_decided = DECIDED, NOT_DECIDED
    ck.trusted += ["rustc MIR", "decode tables in analysis/isa.py", "std models (str::trim/ends_with/... are opaque predicates)"]
    for tm in models:
        br = boolean_roots(tm)
        ck.floor("R10.1", "forced-boolean-roots", len(br), 1, tm.target)
        recs = None
        for p, func, boolval in br:
            rn = short(p)
            vs = tm.variants(p)
            for f in tm.machines[(p, None)].entered:
                ck.analysed_fn(tm.target, f)
            body = tm.facts.body(p)
            m = tm.machines[(p, None)]
            args = tm.root_args(m, body)
            # the recorded signature: the Opaque string carried by the builder argument
            sig_leaves = []

            def collect(v):
                if isinstance(v, Opaque) and v.ty and v.ty.get("k") == "ref" and v.ty["inner"]["k"] == "str":
                    sig_leaves.append(v.e)
                elif isinstance(v, Adt):
                    for x in v.fields:
                        collect(x)
            collect(args[0])
            ck.ob("R10.1", "%s/signature-carried" % rn, tm.target, len(sig_leaves) == 1,
                  "the builder carries %d string(s) (%s) — the recorded signature" % (len(sig_leaves), ", ".join(fmt(s) for s in sig_leaves)))
            if len(sig_leaves) != 1:
                continue
            sig = sig_leaves[0]
            def dep_in(v, e):
                return sig in deps(v, e)[0]
            n_eff = 0

            def classify_atom(v, c):
                """c is an atomic condition known TRUE on the path. -> (kind, on_equal_edge, core)"""
                neg = c.op == "not"
                core = c.args[0] if neg else c
                if core.op in AFFIX:
                    subject = core.args[0]
                    whole = subject == sig or (subject.op in ("trim", "trim_end", "trim_start") and subject.args[0] == sig)
                    return ("affix-whole" if whole else "affix-part"), None, core
                lv, strs, callees = deps(v, core)
                top = core.args[0] if core.op == "ret" else core.op
                is_eq = core.op in ("str_eq", "str_ne") or (core.op == "ret" and ("PartialEq" in top or top.endswith("::eq") or top.endswith("::ne")))
                has_bool = any(x.strip() == "bool" for x in strs)
                if is_eq and has_bool and sig in lv and not uses_leaf(core, lambda x: x.op in AFFIX):
                    holds_eq = (top.endswith("::eq") or top == "str_eq") != neg      # the atom, as it holds, states equality
                    # what is compared must be the return type as the crate's extractor hands it over: between that and the comparison the
                    # gate itself may only pass it along (Option plumbing, trimming) - not split, strip or otherwise take a part of it
                    evs_ = []
                    deps(v, core, events_out=evs_)
                    cut = [e_ for e_ in evs_ if (fn_of_event(e_) == p or fn_of_event(e_).startswith(p + "::{closure")) and tm.facts.body(e_.name) is None
                           and not any(k_ in e_.name for k_ in GATE_PLUMBING) and not e_.name.endswith(("::eq", "::ne"))]
                    if cut:
                        return "eq-bool-on-part", holds_eq, E("part", (cut[0].name,))
                    return "eq-bool", holds_eq, core
                return "other", None, core

            def classify(v, d_):
                """All atomic facts implied by one decision, classified."""
                return [classify_atom(v, a) for a in guards.true_conds([d_])]

            for v in vs:
                eff = [e for e in v.trace if is_effect(e)]
                if not eff:
                    continue
                n_eff += 1
                first = min(e.idx for e in eff)
                gates = [d for d in v.decisions if dep_in(v, d[0]) and d[4] <= first]
                ok = bool(gates)
                ck.ob("R10.1", "%s/gate-dominates-effects" % rn, tm.target, ok,
                      "path with %d effect(s) (first: %s) is %s by a signature-dependent test%s" % (
                          len(eff), eff[0].name, "dominated" if ok else "NOT dominated",
                          (": " + "; ".join("%s=%s" % (fmt(g[0], 4), g[1]) for g in gates)) if gates else ""),
                      where(eff[0]))
                cls = [c for g in gates for c in classify(v, g)]
                good = [c for c in cls if c[0] == "eq-bool" and c[1]]
                if good:
                    ck.ob("R10.2", "%s/install-on-equal-edge-of-equality-with-bool" % rn, tm.target, True,
                          "the installing path is on the equal edge of %s (equality of a part extracted from the recorded signature with the literal `bool`)" % fmt(good[0][2], 5), where(eff[0]))
                    continue
                part = [c for c in cls if c[0] == "eq-bool-on-part"]
                if part:
                    ck.ob("R10.2", "%s/gate-compares-a-part-of-the-return-type" % rn, tm.target, False,
                          "the gate compares `bool` with something it derived from the extracted return type through %s: a return type that merely "
                          "contains such a part (e.g. a user type `legacy::bool`, `&legacy::bool`) is accepted" % part[0][2].args[0], where(eff[0]))
                    continue
                wrong_edge = [c for c in cls if c[0] == "eq-bool" and c[1] is False]
                aff = [c for c in cls if c[0].startswith("affix")]
                if wrong_edge:
                    ck.ob("R10.2", "%s/install-on-NOT-equal-edge" % rn, tm.target, False,
                          "the installing path takes the not-equal edge of %s: the forced boolean is accepted exactly for functions that do not return bool" % fmt(wrong_edge[0][2], 5), where(eff[0]))
                elif aff:
                    core = aff[0][2]
                    if aff[0][0] == "affix-whole":
                        ck.ob("R10.2", "%s/gate-is-affix-test/%s" % (rn, core.op), tm.target, False,
                              "the refusal test is %s: an affix/substring test of the whole signature text. Witness: a target of type "
                              "`fn() -> fn() -> bool` (or `fn(u8) -> Option<fn() -> bool>`-like nestings) renders as a string that passes the "
                              "test although its return type is not bool, so the forced boolean is accepted for it" % fmt(core, 5), where(eff[0]))
                    else:
                        ck.ob("R10.2", "%s/gate-is-affix-test-on-part/%s" % (rn, core.op), tm.target, False,
                              "the refusal test %s is an affix test on a derived part of the signature; equality with `bool` is required" % fmt(core, 5), where(eff[0]))
                else:
                    ck.ob("R10.2", "%s/installing-path-without-equality-with-bool" % rn, tm.target, False,
                          "a path installs the forced boolean without having established that the recorded return type EQUALS `bool`; its "
                          "signature-dependent tests are only: %s — e.g. a signature from which no return type can be extracted (unit "
                          "function, unchecked handle with an empty signature) is accepted" % ("; ".join("%s=%s" % (fmt(g[0], 4), g[1]) for g in gates) or "none"), where(eff[0]))
            # the failing edge diverges without effects
            refused = [v for v in vs if v.status == "diverged" and not any(is_effect(e) for e in v.trace)
                       and any(dep_in(v, d[0]) for d in v.decisions)]
            ck.ob("R10.1", "%s/refusal-path" % rn, tm.target, bool(refused),
                  "%d path(s) on which the signature test fails and the call diverges before any allocation or write" % len(refused))
            ck.floor("R10.1", "%s/paths-with-effects" % rn, n_eff, 1, tm.target)
        # R10.5 a call gets to the stub: the entry patch of the forced-boolean roots transfers to the stub's mapping
        broots = {p for p, _, _ in br}
        k = patches.reach_obligations(ck, "R10.5", tm, lambda r: r.root in broots and (r.role == "entry"), "call-reaches-stub")
        ck.floor("R10.5", "forced-boolean-entry-patches-decoded", k, 1, tm.target)
        # R10.6 "callee-saved registers as after a normal return": the entry patch and the stub of the forced-boolean roots write only
        # caller-saved scratch registers (and the result register, for the stub) - the decision of C13 R13.1-R13.3 on these roots
        k6 = patches.convention_obligations(ck, ("R10.6", "R10.6", "R10.6"), tm, lambda r: r.root in broots)
        ck.floor("R10.6", "forced-boolean-sequences-decoded", k6, 2 if tm.arch != "arm" else 3, tm.target)
        # R10.8 "every call ... returns exactly the requested value" from the first moment: the stub is complete before the entry branches to
        # it (C01 R1.8 on the forced-boolean roots) - a call arriving in between would run a zero-filled page
        if tm.arch != "arm":
            k8 = patches.order_obligations(ck, "R10.8", tm, "stub-written-before-entry", lambda p_: p_ in broots)
            ck.floor("R10.8", "forced-boolean-paths-with-stub-and-entry", k8, 1, tm.target)
        # R10.7 "every call returns the requested value" for as long as the injector lives: the stub stays mapped - the release primitive is
        # applied to nothing but the allocator's own rejected result and, in the guard's destructor after the restore, the guard's mapping
        if tm.arch != "arm":
            from .lifecycle import guard_roles, release_rules, restore_before_release
            g_ = guard_roles(tm)
            if g_.adt:
                release_rules(ck, tm, g_, "R10.7")
                restore_before_release(ck, tm, g_, "R10.7")
        # ... and the forced value stays in force until the injector goes away: the guard is handed to the injector, not dropped here
        from .lifecycle import guard_roles as _gr, pushed_guards
        g2 = _gr(tm)
        if g2.adt:
            for p, func, boolval in br:
                for v in tm.variants(p):
                    if v.status != "returned":
                        continue
                    pg = pushed_guards(v, g2.adt)
                    dropped = sum(1 for e in v.trace if e.kind == "drop" and g2.adt in e.name)
                    ck.ob("R10.7", "%s/guard-kept-by-the-injector" % short(p), tm.target, len(pg) == 1 and dropped == 0,
                          "returning path stores %d guard(s) in the injector and drops %d" % (len(pg), dropped), where(pg[0][0]) if pg else None)
        # R10.3 the stub
        recs = patches.analyse(tm)
        n_stub = 0
        for r in recs:
            if r.repl is not None or r.variant.status != "returned":
                continue
            rn = short(r.root)
            if tm.arch in ("x86_64", "aarch64") and r.role == "trampoline":
                n_stub += 1
                if r.err is not None:
                    ck.ob("R10.3", "%s/%s/stub/undecodable" % (tm.arch, rn), tm.target, False, "stub bytes: %s" % r.err, where(r.ev))
                    continue
                sim = r.sim
                mn = patches.mnemonics(sim)
                resreg = "rax" if tm.arch == "x86_64" else "x0"
                val = sim["regs"].get(resreg)
                exp0 = r.boolval.get_bits()[0]
                # the whole 32-bit result register is defined: bit 0 = the value, bits 1..31 = 0 (compilers test w0 / eax, not just the
                # low byte, for a `zeroext i1` result; a MOVK or a byte move would leave the caller's first argument in the upper bits)
                ok_val = isinstance(val, tuple) and val[0] == exp0 and all(b == 0 for b in val[1:32])
                t = sim["transfer"]
                ok_ret = t is not None and t["kind"] == "ret" and (tm.arch == "x86_64" or t.get("reg") == "x30")
                wr = set(sim["written"])
                ok_regs = wr <= {resreg} and not sim.get("stack") and not sim.get("calls")
                ck.ob("R10.3", "%s/%s/stub/value" % (tm.arch, rn), tm.target, ok_val,
                      "stub %s leaves %s[0..32] = %s; expected bit 0 = the requested value, bits 1..31 = 0" % (
                          mn, resreg, fmt(from_bits(tuple(val[:32])), 3) if isinstance(val, tuple) else "unset"), where(r.ev))
                ck.ob("R10.3", "%s/%s/stub/returns" % (tm.arch, rn), tm.target, ok_ret, "stub ends with %s" % (t["kind"] if t else "no control transfer"), where(r.ev))
                ck.ob("R10.3", "%s/%s/stub/nothing-else" % (tm.arch, rn), tm.target, ok_regs,
                      "registers written: %s; stack effect: %s" % (sorted(wr), bool(sim.get("stack"))), where(r.ev))
                al = alloc_events(r.variant)
                if al and len(al[-1].args) > 1 and isinstance(al[-1].args[1], Int) and al[-1].args[1].is_const():
                    size = al[-1].args[1].cval()
                    ck.ob("R10.4", "%s/%s/stub/capacity" % (tm.arch, rn), tm.target, 0 < size and sim["total"] <= (size + 4095) // 4096 * 4096,
                          "%d stub bytes vs %d requested" % (sim["total"], size), where(r.ev))
            elif tm.arch == "arm" and r.role == "entry":
                n_stub += 1
                if r.err is not None:
                    ck.ob("R10.3", "arm/%s/%s/undecodable" % (rn, r.cls[0]), tm.target, False, r.err, where(r.ev))
                    continue
                t = r.sim["transfer"]
                val = from_bits(tuple(t["bits"])) if t and t.get("bits") else None
                ok = False
                why = "branch target is %s" % (fmt(val, 4) if val is not None else "unknown")
                if val is not None and val.op == "gamma" and val.args[1].op == "fnaddr" and val.args[2].op == "fnaddr":
                    c, fa, fb = val.args
                    exp0 = r.boolval.get_bits()[0]
                    pos = c == exp0
                    negc = c == not_(exp0) if isinstance(exp0, E) else False
                    if pos or negc:
                        ft, ff = (fa, fb) if pos else (fb, fa)
                        rets = []
                        for fx in (ft, ff):
                            if len(fx.args) > 1:
                                # an instance of a const-generic function: evaluate the body with its const parameters bound
                                gens = (tm.facts.fns.get(fx.args[0]) or {}).get("generics") or []
                                vs2 = tm.try_variants(fx.args[0], tag=("consts", fx.args[1]), gmap=dict(zip(gens, fx.args[1])))
                            else:
                                vs2 = tm.try_variants(fx.args[0])
                            rv = None
                            if vs2 and len(vs2) == 1 and vs2[0].status == "returned" and isinstance(vs2[0].ret, Int) and vs2[0].ret.is_const() and not vs2[0].trace:
                                rv = vs2[0].ret.cval()
                            rets.append(rv)
                        ok = rets == [1, 0]
                        why += "; value=true selects %s which returns %s, value=false selects %s which returns %s" % (
                            short(ft.args[0]), rets[0], short(ff.args[0]), rets[1])
                ck.ob("R10.3", "arm/%s/%s/stub-function" % (rn, r.cls[0]), tm.target, ok, why, where(r.ev))
        ck.floor("R10.3", "stubs-decoded", n_stub, 1, tm.target)
