"""Shared helpers for the per-property rules."""
from ..expr import *
from ..interp import Adt, Arr, Tup, VecV, Ref, SliceRef, SymSlice, Opaque, FnVal, Int
from ..model import TargetModel, arch_of, os_of
from .. import guards, bounds, isa

PROTECT_FFI = ("libc::mprotect", "injector_core::winapi::VirtualProtect", "mach2::vm::mach_vm_protect")
ALLOC_FFI = ("libc::mmap", "injector_core::winapi::VirtualAlloc")
FREE_FFI = ("libc::munmap", "injector_core::winapi::VirtualFree")


def short(name):
    return name.split("::")[-1]


def find_ptr_leaves(val, out=None):
    """All pointer-valued Ints stored under a NonNull inside an abstract value (the function pointers it carries)."""
    if out is None:
        out = []
    if isinstance(val, Adt):
        if val.path == "std::ptr::NonNull":
            out.append(val.fields[0])
        else:
            for f in val.fields:
                find_ptr_leaves(f, out)
    elif isinstance(val, (Arr, Tup)):
        for f in val.elems:
            find_ptr_leaves(f, out)
    elif isinstance(val, Ref):
        pass
    return out


def same_expr(a, b):
    return guards.same(a, b)


def code_writes(variant):
    """raw_write events of a variant with decoded roles left to the caller."""
    return [e for e in variant.trace if e.kind == "raw_write"]


def alloc_events(variant):
    return [e for e in variant.trace if (e.kind == "summary" and e.extra.get("effectful")) or (e.kind == "ffi" and e.name in ALLOC_FFI)]


def is_effect(e):
    """Events that touch the process: allocation/FFI, raw reads/writes (pure helper summaries are not effects)."""
    if e.kind == "summary":
        return bool(e.extra.get("effectful"))
    return e.kind in ("ffi", "raw_write", "raw_read", "raw_write_other", "raw_store", "asm")


def ev_before(variant, ev, pred):
    for e in reversed(variant.trace[:ev.idx]):
        if pred(e):
            return e
    return None


def evs_after(variant, ev, pred):
    return [e for e in variant.trace[ev.idx + 1:] if pred(e)]


def fmt_dec(variant, limit=6):
    out = []
    for d in variant.decisions[:limit]:
        out.append("%s=%s" % (fmt(d[0], 4), d[1]))
    return "; ".join(out)


def where(ev):
    return ev.where() if ev is not None else None


def fn_of_event(ev):
    """The crate function in which the event's call site lies (innermost frame)."""
    return ev.stack[-1] if ev.stack else "?"


def variant_class(variant):
    """Short stable label of a variant: the branch outcomes inside the crate, without line numbers."""
    parts = []
    for d in variant.decisions:
        parts.append("%s:%s" % (short(d[3]), d[1] if isinstance(d[1], int) else "else"))
    return ",".join(parts)


def find_event(variant, name, idx):
    k = 0
    for ev in variant.trace:
        if ev.name == name and ev.kind != "diverge":
            if k == idx:
                return ev
            k += 1
    return None


def deps(variant, root, limit=400, events_out=None):
    """Transitive data dependencies of an expression: leaves, string literals, callee names (following the results of
    recorded calls back to their arguments)."""
    leaves, strs, callees = set(), set(), set()
    seen = set()
    stack = [root]
    n = 0

    def push_val(v):
        from ..interp import Ref, SliceRef, get_path
        if isinstance(v, (Int, Opaque)):
            stack.append(v.e)
        elif isinstance(v, Adt):
            for f in v.fields:
                push_val(f)
        elif isinstance(v, (Arr, Tup)):
            for f in v.elems:
                push_val(f)
        elif isinstance(v, Ref):
            try:
                push_val(get_path(v.cell.val, v.path))
            except Exception:
                pass
        elif isinstance(v, SymSlice):
            stack.append(v.content)
        elif isinstance(v, VecV):
            if v.elems is not None:
                for f in v.elems:
                    push_val(f)
            else:
                stack.append(v.content)
        elif isinstance(v, FnVal):
            callees.add(v.path)
        elif v.__class__.__name__ == "ClosureV":
            callees.add(v.path)
            for f in v.captures:
                push_val(f)
        elif v.__class__.__name__ == "IterV":
            for f in (v.a, v.b, v.c):
                if f is not None:
                    push_val(f)
        elif v.__class__.__name__ == "SliceRef":
            push_val(v.base)

    while stack and n < limit:
        e = stack.pop()
        n += 1
        if not isinstance(e, E) or e in seen:
            continue
        seen.add(e)
        if e.op in ("leaf",):
            leaves.add(e)
        elif e.op == "field":
            leaves.add(e)
            stack.append(e.args[0])
        elif e.op == "str":
            strs.add(e.args[0])
        elif e.op in ("ret", "out"):
            callees.add(e.args[0])
            ev = find_event(variant, e.args[0], e.args[1])
            if ev is not None:
                if events_out is not None:
                    events_out.append(ev)
                for a in ev.args:
                    push_val(a)
        else:
            for a in e.args:
                if isinstance(a, E):
                    stack.append(a)
    return leaves, strs, callees


def is_std_lock(name):
    return name.startswith("std::sync::") and name.endswith("Mutex::<T>::lock")
