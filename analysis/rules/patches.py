"""Per-target list of decoded patch records for every public install root / variant, shared by C01, C10, C13, C15, C16."""
from .common import *
from .codewrite import *


class PatchRec:
    def __init__(self, **kw):
        self.__dict__.update(kw)


def roots_and_roles(tm):
    """For each public install root: (path, func_ptr Int, replacement Int|None, value Int|None)."""
    out = []
    for p in tm.install_roots():
        body = tm.facts.body(p)
        m = tm.machines[(p, None)]
        args = tm.root_args(m, body)
        ptrs = [find_ptr_leaves(a) for a in args]
        func = ptrs[0][0] if ptrs and ptrs[0] else None
        repl = None
        for pl in ptrs[1:]:
            if pl:
                repl = pl[0]
        boolval = None
        for a in args[1:]:
            if isinstance(a, Int) and a.w == 1:
                boolval = a
        out.append((p, func, repl, boolval))
    return out


def analyse(tm):
    """Returns (records, problems). Each record: root, cls, variant, role, ev, pc (Int: where the bytes execute), dst (where
    written), sim | err, dest, func, repl, boolval."""
    recs = []
    bound = alloc_bound_for(tm) if tm.arch != "arm" else None
    for p, func, repl, boolval in roots_and_roles(tm):
        classes = [None]
        if tm.arch == "arm":
            classes = list(ARM_CLASSES)
        work = list(classes)
        while work:
            cls = work.pop(0)
            if cls is None:
                vs = tm.variants_for_decode(p)
            else:
                vs = arm_class_variants(tm, p, cls)
            batch = []
            for v in vs:
                cw = classify_writes(v, func) if cls is None else [(ev, "entry", ev.extra["dst"], ev.extra["dst"], None) for ev in code_writes(v)]
                if v.status == "returned" and not any(c_[1] == "entry" for c_ in cw):
                    # an installation that comes back without having written the entry: the call still runs the original (or an older patch)
                    if not hasattr(tm, "_returns_without_entry_write"):
                        tm._returns_without_entry_write = []
                    tm._returns_without_entry_write.append((p, cls, v))
                for ev, role, dst, real, alias in cw:
                    r = PatchRec(root=p, cls=cls, variant=v, role=role, ev=ev, pc=real, dst=dst, alias=alias, func=func, repl=repl,
                                 boolval=boolval, sim=None, err=None, dest=None, notes=[], alloc_bound=bound, range_problem=None)
                    try:
                        if tm.arch == "x86_64":
                            r.sim, r.dest = x86_transfer(ev, v)
                            if r.dest and r.dest[0] == "rel" and alias is not None:
                                r.dest = ("rel", binop("add", binop("sub", r.dest[1], dst.e, 64), real.e, 64), r.dest[2])
                        elif tm.arch == "aarch64":
                            r.sim, r.dest, r.notes = a64_branch_dest(ev, v, real, bound)
                        elif tm.arch == "arm":
                            r.sim = arm_patch(ev, cls[2], cls[3])
                            t = r.sim["transfer"]
                            r.dest = ("bits32", t["bits"], t["reg"]) if t and t["kind"] == "bx" and t["bits"] is not None else None
                    except RangeProblem as e:
                        r.err = str(e)
                        r.range_problem = e
                        r.sim = e.sim
                    except isa.Undecodable as e:
                        r.err = str(e)
                    batch.append(r)
            # ARM: the encoder may split on further address bits; if the bytes are not constant in this class, refine it
            if cls is not None and len(cls[1]) < 4 and any(r.err and "non-instruction" in r.err for r in batch):
                work = refine_arm_class(cls) + work
                continue
            recs.extend(batch)
    return recs


def protection_tightness(ck, rule, tm, g=None):
    """The protection change that precedes an entry write (and the destructor's restoring write) reaches no further than the pages the
    written bytes lie in: page_up(start + size) <= page_up(dst + len) and start >= page_down(dst). A wider request changes the
    protection of a page the injector has no business with - it is refused when that page is not mapped (the installation panics after
    the trampoline was mapped, the destructor panics before it is released), or it silently makes a foreign data page executable."""
    n = 0
    todo = []
    for r in analyse(tm):
        if r.role == "entry" and r.variant.status == "returned":
            todo.append((short(r.root), r.variant, r.ev, r.dst, r.ev.extra["count"]))
    if g is not None and g.drop_fn:
        for v in tm.variants(g.drop_fn):
            for ev in code_writes(v):
                todo.append(("guard destructor", v, ev, ev.extra["dst"], ev.extra["count"]))
    seen = set()
    for label, v, ev, dst, nbytes in todo:
        prot = ev_before(v, ev, lambda e: e.kind == "ffi" and e.name in PROTECT_FFI and e.name != "mach2::vm::mach_vm_protect")
        if prot is None:
            continue
        start, size = prot.args[0], prot.args[1]
        P = bounds.find_page(start.e) or bounds.find_page(size.e) or leaf("page_size", 64)
        w = tm.ptr_bits
        pm1 = binop("sub", P, const(1, w), w)
        up = lambda x: binop("and", binop("add", x, pm1, w), not_(pm1), w)
        cov_end = up(binop("add", start.e, size.e, w))
        wr_end_up = up(binop("add", dst.e, nbytes.e, w))
        ok_hi, why_hi = bounds.prove_ge(wr_end_up, cov_end, w, P)
        ok_lo, why_lo = bounds.prove_ge(start.e, binop("and", dst.e, not_(pm1), w), w, P)
        key = (label, fmt(start.e, 6), fmt(size.e, 6))
        if key in seen:
            continue
        seen.add(key)
        n += 1
        ck.ob(rule, "%s/%s/no-wider-than-the-pages-written" % (tm.os, short(prot.name)), tm.target, ok_hi and ok_lo,
              "%s: protection change %s(start=%s, size=%s) before the write of %s byte(s) at %s: page_up(start+size) <= page_up(dst+len) %s (%s); "
              "start >= page_down(dst) %s (%s)%s" % (
                  label, short(prot.name), fmt(start.e, 4), fmt(size.e, 3), fmt(nbytes.e), fmt(dst.e, 3),
                  "proved" if ok_hi else "NOT provable", why_hi, "proved" if ok_lo else "NOT provable", why_lo,
                  "" if ok_hi else " - counter-example class: the written bytes end exactly on a page boundary and the request still takes in the next page"),
              where(prot))
    return n


def missing_entry_writes(ck, rule, tm, label):
    """Every returning path of an install root writes the function's entry (called after analyse(tm)); shared by the reach rule and by
    the per-architecture checks, which decide destinations from the writes and would otherwise not see a path that writes nothing."""
    seen = set()
    for p_, cls_, v_ in getattr(tm, "_returns_without_entry_write", []):
        k_ = (p_, cls_[0] if cls_ else None)
        if k_ in seen:
            continue
        seen.add(k_)
        ck.ob(rule, "%s/%s/%s%s/returns-without-writing-the-entry" % (label, tm.arch, short(p_), ("/" + cls_[0]) if cls_ else ""), tm.target, False,
              "a path of %s returns normally without any write at the function's entry: the call goes on running what was there before [%s]" % (
                  short(p_), fmt_dec(v_)))
    return len(seen)


def mnemonics(sim):
    if sim is None:
        return "?"
    ins = sim.get("ins") or []
    ex = sim.get("executed")
    if isinstance(ex, list):
        ins = ex
    return " ; ".join(i["mn"] for i in ins)


from .. import bounds


def check_protection(ck, rule, tm, rootname, variant, ev, dst, nbytes, role):
    """The closest preceding protection change covers the write (kernel rounds to pages) and allows writing (C01 R1.3; repeated by
    the shared reach rule: a call cannot reach the fake through an entry that could not be written)."""
    prot = ev_before(variant, ev, lambda e: e.kind == "ffi" and e.name in PROTECT_FFI)
    key = "%s/%s" % (tm.os, role)
    if prot is None:
        ck.ob(rule, key + "/no-protection-change", tm.target, False,
              "%s write of %s bytes at %s in %s is not preceded by any protection change" % (role, fmt(nbytes.e), fmt(dst.e, 3), short(rootname)),
              where(ev))
        return
    if prot.name == "mach2::vm::mach_vm_protect":
        start, size = prot.args[1], prot.args[2]
    else:
        start, size = prot.args[0], prot.args[1]
    P = bounds.find_page(start.e) or bounds.find_page(size.e) or leaf("page_size", 64)
    w = tm.ptr_bits
    pm1 = binop("sub", P, const(1, w), w)
    cov_end = binop("and", binop("add", binop("add", start.e, size.e, w), pm1, w), not_(pm1), w)
    wr_end = binop("add", dst.e, nbytes.e, w)
    ok_lo, why_lo = bounds.prove_ge(dst.e, binop("and", start.e, not_(pm1), w), w, P)
    ok_hi, why_hi = bounds.prove_ge(cov_end, wr_end, w, P)
    helper = short(fn_of_event(prot))
    k2 = "%s/%s/%s" % (tm.os, short(prot.name), "covers-write")
    ck.ob(rule, k2, tm.target, ok_lo and ok_hi,
          "protection change %s(start=%s, size=%s) in %s before the %s write of %s byte(s) at %s: start<=dst %s (%s); "
          "page_up(start+size) >= dst+len %s (%s)%s" % (
              short(prot.name), fmt(start.e, 4), fmt(size.e, 3), helper, role, fmt(nbytes.e), fmt(dst.e, 3),
              "proved" if ok_lo else "NOT provable", why_lo, "proved" if ok_hi else "NOT provable", why_hi,
              "" if ok_hi else " — counter-example class: the patch straddles a page boundary (page offset o with o + len > page size), "
              "the second page keeps its old protection and the copy faults"),
          where(prot), witness={"start": fmt(start.e, 6), "size": fmt(size.e, 6), "dst": fmt(dst.e, 6), "len": fmt(nbytes.e)})
    if prot.name == "mach2::vm::mach_vm_protect":
        # macOS writes into a private alias of the page (first mach_vm_remap + VM_PROT_COPY); the function only changes when that alias
        # is mapped back over it: a later mach_vm_remap whose source is the alias and whose flags say OVERWRITE (0x4000), not ANYWHERE (1)
        back = [e for e in variant.trace[ev.idx + 1:] if e.kind == "ffi" and e.name == "mach2::vm::mach_vm_remap" and len(e.args) > 6
                and isinstance(e.args[6], Int) and same_expr(e.args[6].e, dst.e)]
        okb, whyb = False, "no later mach_vm_remap takes the written alias as its source"
        for e in back:
            fl = e.args[4]
            if isinstance(fl, Int) and fl.is_const():
                f_ = fl.cval()
                okb = bool(f_ & 0x4000) and not (f_ & 1)
                whyb = "mach_vm_remap(.., flags=%#x, .., src=alias): %s" % (f_, "VM_FLAGS_OVERWRITE at the function's address" if okb else
                                                                         "NOT an overwrite of the function's page (ANYWHERE maps the patched copy somewhere else)")
            else:
                whyb = "mach_vm_remap flags are not constant"
        ck.ob(rule, "macos/%s/alias-mapped-back-over-the-function" % role, tm.target, okb,
              "%s write of %s byte(s) into the alias %s in %s: %s" % (role, fmt(nbytes.e), fmt(dst.e, 3), short(rootname), whyb), where(back[-1]) if back else where(ev))
    # protection value must allow writing (and executing on non-macOS)
    if prot.name != "mach2::vm::mach_vm_protect":
        pv = prot.args[2]
        if isinstance(pv, Int) and pv.is_const():
            v = pv.cval()
            need = 7 if tm.os == "linux" else 0x40
            good = (v & 7) == 7 if tm.os == "linux" else v in (0x40, 0x80)
            ck.ob(rule, "%s/%s/prot-value" % (tm.os, short(prot.name)), tm.target, good,
                  "protection constant %#x %s read|write|execute" % (v, "includes" if good else "does NOT include"), where(prot))



def reach_obligations(ck, rule, tm, want_root, label):
    """Shared necessary condition of every property that speaks about what a call to the faked function does: on each
    returning path of the selected install roots, the entry patch decodes to a transfer to the trampoline (or, without one,
    to the replacement) and the trampoline to the replacement (or, for a forced value, to a return). The decision is the
    same as C01 R1.1 / C15 R15.2-4 / C16 R16.1; it is repeated under the calling property's rule id so that a change which
    sends these particular installations elsewhere is reported under that property too. Returns the number decided."""
    n = 0
    recs_ = analyse(tm)
    seen_missing = set()
    for p_, cls_, v_ in getattr(tm, "_returns_without_entry_write", []):
        class _R:
            root = p_
        if not want_root(_R) or (p_, cls_[0] if cls_ else None) in seen_missing:
            continue
        seen_missing.add((p_, cls_[0] if cls_ else None))
        ck.ob(rule, "%s/%s/%s%s/returns-without-writing-the-entry" % (label, tm.arch, short(p_), ("/" + cls_[0]) if cls_ else ""), tm.target, False,
              "a path of %s returns normally without any write at the function's entry: the call goes on running what was there before [%s]" % (
                  short(p_), fmt_dec(v_)))
    for r in recs_:
        if r.role == "other" or r.variant.status != "returned" or not want_root(r):
            continue
        rn = short(r.root)
        cls = ("/" + r.cls[0]) if r.cls else ""
        key = "%s/%s/%s%s/%s" % (label, tm.arch, rn, cls, r.role)
        if r.err is not None:
            ck.ob(rule, key + ("/rel-range" if r.range_problem else "/undecodable"), tm.target, False,
                  "%s bytes of %s: %s" % (r.role, rn, r.err), where(r.ev))
            continue
        n += 1
        mn = mnemonics(r.sim)
        if r.role == "entry":
            check_protection(ck, rule, tm, r.root, r.variant, r.ev, r.dst, r.ev.extra["count"], "entry")
        if tm.arch == "arm":
            t = r.sim["transfer"]
            ok, why = False, "no BX through a loaded literal"
            if t and t["kind"] == "bx" and t["bits"] is not None:
                if r.repl is not None:
                    ok = tuple(t["bits"]) == tuple(r.repl.get_bits())
                    why = "literal loaded into %s is %s, expected %s" % (t["reg"], fmt(from_bits(tuple(t["bits"])), 3), fmt(r.repl.e, 3))
                else:
                    val = from_bits(tuple(t["bits"]))
                    ok = val.op == "gamma" and val.args[1].op == "fnaddr" and val.args[2].op == "fnaddr"
                    why = "literal is %s" % fmt(val, 4)
            ck.ob(rule, key + "/dest", tm.target, ok, "executes %s; %s" % (mn, why), where(r.ev))
            continue
        eq = (lambda d, t: dest_equals(d, t)) if tm.arch == "x86_64" else (lambda d, t: a64_dest_equals(d, t, r.pc, r.alloc_bound))
        if r.role == "trampoline":
            if r.repl is not None:
                ok, why = eq(r.dest, r.repl) if r.dest and r.dest[0] != "ret" else (False, "no branch to the replacement")
            else:
                ok = r.dest is not None and r.dest[0] == "ret"
                why = "returns to the caller" if ok else "does not end in a return"
            ck.ob(rule, key + "/dest", tm.target, ok, "trampoline decodes to %s; %s" % (mn, why), where(r.ev))
        else:
            tr = [c for c in classify_writes(r.variant, r.func) if c[1] == "trampoline"]
            if tr:
                ok, why = eq(r.dest, tr[-1][2]) if r.dest else (False, "entry bytes contain no branch")
            elif r.repl is not None:
                ok, why = eq(r.dest, r.repl) if r.dest else (False, "entry bytes contain no branch")
            else:
                ok, why = False, "entry written without a trampoline on this path"
            ck.ob(rule, key + "/dest", tm.target, ok, "entry patch decodes to %s; %s" % (mn, why), where(r.ev))
    return n


def order_obligations(ck, rule, tm, label="trampoline-before-entry", want=lambda p: True):
    """On every path of every install root, each write into the installation's trampoline precedes the write of the function
    entry: from the moment the entry branches to the trampoline any thread (or the installer itself, when it fakes a function
    it calls) may arrive there, so the trampoline must already be complete. Trace order = program order on the path."""
    n = 0
    for p, func, repl, boolval in roots_and_roles(tm):
        if not want(p):
            continue
        rn = short(p)
        for v in tm.variants(p):
            cw = classify_writes(v, func)
            ent = [c for c in cw if c[1] == "entry"]
            tr = [c for c in cw if c[1] == "trampoline"]
            if not ent or not tr:
                continue
            n += 1
            first_entry = min(c[0].idx for c in ent)
            late = [c for c in tr if c[0].idx > first_entry]
            ck.ob(rule, "%s/%s" % (rn, label), tm.target, not late,
                  "%d trampoline write(s), %d of them after the entry was already redirected%s" % (
                      len(tr), len(late), "" if not late else ": a call arriving in between executes an unwritten (zero-filled) trampoline"),
                  where(late[0][0]) if late else where(ent[0][0]))
    return n


SCRATCH = {"x86_64": {"rax", "r10", "r11"}, "aarch64": {"x%d" % i for i in range(9, 18)}, "arm": {"r12"}}
RESULT = {"x86_64": {"rax"}, "aarch64": {"x0"}, "arm": {"r0"}}


def convention_obligations(ck, rules, tm, want=lambda r: True):
    """Between caller and fake only the emitted entry and trampoline run: every instruction of their decoded lists is an
    unconditional branch, a NOP or a move into the scratch register (rules[0]); the registers written are within the target ABI's
    caller-saved, non-argument, non-result set (rules[1]); load and branch use the same register (rules[2]). Shared by C13 (all
    roots) and C10 (forced-boolean roots: "callee-saved registers as after a normal return"). Returns the number decided."""
    recs = analyse(tm)
    n = 0
    for r in recs:
        if r.role == "other" or r.variant.status != "returned" or not want(r):
            continue
        rn = short(r.root)
        cname = ("/" + r.cls[0]) if r.cls else ""
        if r.err is not None and not (r.range_problem is not None and r.sim is not None):
            ck.ob(rules[0], "%s/%s%s/%s/undecodable" % (tm.arch, rn, cname, r.role), tm.target, False,
                  "%s bytes cannot be decoded: %s" % (r.role, r.err), where(r.ev))
            continue
        n += 1
        sim = r.sim
        mn = mnemonics(sim)
        stub = r.repl is None and r.role == "trampoline"
        allowed_mn = {"x86_64": {"jmp_rel", "jmp_reg", "jmp_mem_rip", "mov_imm", "nop"} | ({"ret"} if stub else set()),
                      "aarch64": {"b", "br", "movz", "movk", "nop", "adrp", "add_imm", "ldr_lit"} | ({"ret"} if stub else set()),
                      "arm": {"nop", "ldr_lit", "bx", "mov_reg"}}[tm.arch]
        ex_ = sim.get("executed")
        ins = ex_ if isinstance(ex_, list) else (sim["ins"][:ex_] if isinstance(ex_, int) else sim["ins"])     # what runs, not what follows the branch
        used = [i["mn"] for i in ins]
        bad = [u for u in used if u not in allowed_mn]
        ok1 = not bad and not sim.get("stack") and not sim.get("calls")
        ck.ob(rules[0], "%s/%s%s/%s/only-branches-and-scratch-moves" % (tm.arch, rn, cname, r.role), tm.target, ok1,
              "%s sequence: %s%s" % (r.role, mn, ("; not allowed: %s" % bad) if bad else ""), where(r.ev))
        wr = set(w for w in sim["written"] if not w.startswith("_"))
        allowed = set(SCRATCH[tm.arch]) | (RESULT[tm.arch] if stub else set())
        off = sorted(wr - allowed)
        if off:
            state = ("T32" if r.cls[2] else "A32") if r.cls else r.role
            ck.ob(rules[1], "%s/%s/scratch-register/%s" % (tm.arch, state, off[0]), tm.target, False,
                  "%s sequence (%s) writes %s, outside the caller-saved non-argument set %s: the caller's value of that register is lost "
                  "across a call to a faked function" % (r.role, mn, ",".join(off), sorted(SCRATCH[tm.arch])), where(r.ev))
        else:
            ck.ob(rules[1], "%s/%s%s/%s/scratch-register" % (tm.arch, rn, cname, r.role), tm.target, True,
                  "%s sequence writes only %s" % (r.role, sorted(wr)), where(r.ev))
        # R13.3 same register in load and branch
        t = sim["transfer"]
        if t and t["kind"] in ("jmp_reg", "br", "bx"):
            reg = t["reg"]
            ck.ob(rules[2], "%s/%s%s/%s/load-branch-register" % (tm.arch, rn, cname, r.role), tm.target, reg in wr or reg == "pc" or reg.startswith("[rip"),
                  "branch through %s; registers loaded by the sequence: %s" % (reg, sorted(wr)), where(r.ev))
    return n


def jit_window_obligations(ck, rule, tm):
    """macOS (MAP_JIT): a thread may write to its JIT mappings only between pthread_jit_write_protect_np(0) and (1), and may
    execute from them only outside that window. Every write into the installation's trampoline must therefore have the toggle
    with argument 0 as the latest toggle before it and a toggle with argument 1 after it (before the path returns): the other
    way round the write faults, or the trampoline is left non-executable."""
    if tm.os != "macos":
        return 0
    n = 0
    for p, func, repl, boolval in roots_and_roles(tm):
        rn = short(p)
        for v in tm.variants(p):
            if v.status != "returned":
                continue
            tog = [e for e in v.trace if e.kind == "ffi" and e.name.endswith("pthread_jit_write_protect_np")]
            for ev, role, dst, real, alias in classify_writes(v, func):
                if role != "trampoline":
                    continue
                n += 1
                before = [e for e in tog if e.idx < ev.idx]
                after = [e for e in tog if e.idx > ev.idx]
                arg = lambda e: e.args[0].cval() if e.args and isinstance(e.args[0], Int) and e.args[0].is_const() else None
                ok = bool(before) and arg(before[-1]) == 0 and bool(after) and arg(after[0]) == 1
                ck.ob(rule, "%s/jit-write-window" % rn, tm.target, ok,
                      "trampoline write: latest toggle before it = %s, first toggle after it = %s (expected 0 then 1)" % (
                          arg(before[-1]) if before else "none", arg(after[0]) if after else "none"), where(ev))
    return n
