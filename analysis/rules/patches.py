"""Per-target list of decoded patch records for every public install root / variant, shared by C01, C10, C13, C15, C16."""
from .common import *
from .codewrite import *


class PatchRec:
    def __init__(self, **kw):
        self.__dict__.update(kw)


def roots_and_roles(tm):
    """For each public install root: (path, func_ptr Int, replacement Int|None, value Int|None)."""
    out = []
    for p in tm.install_roots():
        body = tm.facts.body(p)
        m = tm.machines[(p, None)]
        args = tm.root_args(m, body)
        ptrs = [find_ptr_leaves(a) for a in args]
        func = ptrs[0][0] if ptrs and ptrs[0] else None
        repl = None
        for pl in ptrs[1:]:
            if pl:
                repl = pl[0]
        boolval = None
        for a in args[1:]:
            if isinstance(a, Int) and a.w == 1:
                boolval = a
        out.append((p, func, repl, boolval))
    return out


def analyse(tm):
    """Returns (records, problems). Each record: root, cls, variant, role, ev, pc (Int: where the bytes execute), dst (where
    written), sim | err, dest, func, repl, boolval."""
    recs = []
    bound = alloc_bound_for(tm) if tm.arch != "arm" else None
    for p, func, repl, boolval in roots_and_roles(tm):
        classes = [None]
        if tm.arch == "arm":
            classes = list(ARM_CLASSES)
        work = list(classes)
        while work:
            cls = work.pop(0)
            if cls is None:
                vs = tm.variants(p)
            else:
                vs = arm_class_variants(tm, p, cls)
            batch = []
            for v in vs:
                cw = classify_writes(v, func) if cls is None else [(ev, "entry", ev.extra["dst"], ev.extra["dst"], None) for ev in code_writes(v)]
                for ev, role, dst, real, alias in cw:
                    r = PatchRec(root=p, cls=cls, variant=v, role=role, ev=ev, pc=real, dst=dst, alias=alias, func=func, repl=repl,
                                 boolval=boolval, sim=None, err=None, dest=None, notes=[], alloc_bound=bound, range_problem=None)
                    try:
                        if tm.arch == "x86_64":
                            r.sim, r.dest = x86_transfer(ev, v)
                            if r.dest and r.dest[0] == "rel" and alias is not None:
                                r.dest = ("rel", binop("add", binop("sub", r.dest[1], dst.e, 64), real.e, 64), r.dest[2])
                        elif tm.arch == "aarch64":
                            r.sim, r.dest, r.notes = a64_branch_dest(ev, v, real, bound)
                        elif tm.arch == "arm":
                            r.sim = arm_patch(ev, cls[2], cls[3])
                            t = r.sim["transfer"]
                            r.dest = ("bits32", t["bits"], t["reg"]) if t and t["kind"] == "bx" and t["bits"] is not None else None
                    except RangeProblem as e:
                        r.err = str(e)
                        r.range_problem = e
                        r.sim = e.sim
                    except isa.Undecodable as e:
                        r.err = str(e)
                    batch.append(r)
            # ARM: the encoder may split on further address bits; if the bytes are not constant in this class, refine it
            if cls is not None and len(cls[1]) < 4 and any(r.err and "non-instruction" in r.err for r in batch):
                work = refine_arm_class(cls) + work
                continue
            recs.extend(batch)
    return recs


def mnemonics(sim):
    if sim is None:
        return "?"
    ins = sim.get("ins") or []
    ex = sim.get("executed")
    if isinstance(ex, list):
        ins = ex
    return " ; ".join(i["mn"] for i in ins)
