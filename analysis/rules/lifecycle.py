"""Shared analysis of the installation life cycle: the restore guard's field roles (derived from its destructor),
the guard values built by install roots, the injector's container and teardown order."""
from .common import *
from .codewrite import *
from . import patches
from ..interp import Machine, Unsupported, get_path
from .. import cfg as cfgmod


def self_field(e):
    """field(deref(self), NAME) -> NAME"""
    if e.op == "field" and e.args[0].op == "deref" and e.args[0].args[0].op == "leaf":
        return e.args[1]
    return None


class GuardRoles:
    def __init__(self):
        self.adt = None
        self.drop_fn = None
        self.addr = self.saved = self.len = self.jit_ptr = self.jit_size = None
        self.len_is_saved_len = False      # the destructor restores the whole saved buffer (count = saved.len())
        self.problems = []


def guard_roles(tm):
    g = GuardRoles()
    g.adt, g.drop_fn = tm.guard_drop()
    if g.adt is None:
        g.problems.append("no crate type whose Drop reaches a raw code write")
        return g
    vs = tm.variants(g.drop_fn)
    for v in vs:
        for ev in code_writes(v):
            a = self_field(resolve_alias(v, ev.extra["dst"])[0].e)
            if a:
                g.addr = a
            ce = ev.extra["count"].e
            c = self_field(ce)
            if c:
                g.len = c
            elif ce.op == "vec_len" and self_field(ce.args[0]):
                g.len_is_saved_len = True
            s = ev.extra.get("src")
            se = s.e if isinstance(s, Int) else (s if isinstance(s, E) else None)
            if se is not None:
                x = se
                if x.op == "vec_ptr":
                    x = x.args[0]
                if x.op == "prefix":
                    x = x.args[0]
                if x.op == "vec_content":
                    f = self_field(x.args[0])
                    if f:
                        g.saved = f
        for ev in v.trace:
            if ev.kind == "ffi" and ev.name in FREE_FFI:
                p = self_field(ev.args[0].e) if isinstance(ev.args[0], Int) else None
                if p:
                    g.jit_ptr = p
                if len(ev.args) > 1 and isinstance(ev.args[1], Int):
                    z = self_field(ev.args[1].e)
                    if z:
                        g.jit_size = z
    return g


def guard_field(gv, adtfacts, name):
    """Field `name` of an abstract guard value."""
    if not isinstance(gv, Adt) or name is None:
        return None
    try:
        return gv.field(name)
    except ValueError:
        return None


def pushed_guards(variant, guard_adt):
    """(event, guard value, container expr) for every push of a guard-typed value."""
    out = []
    for ev in variant.trace:
        if ev.kind == "vec_push" and len(ev.args) == 2 and isinstance(ev.args[1], Adt) and ev.args[1].path == guard_adt:
            out.append((ev, ev.args[1], ev.args[0].e))
        elif ev.kind == "ext" and ev.name.split("::")[-1] in ("push", "push_back", "push_front", "insert") and ev.args and \
                isinstance(ev.args[-1], Adt) and ev.args[-1].path == guard_adt:
            c = ev.args[0]
            ce = c.e if isinstance(c, (Opaque, Int)) else E("container", (repr(c),))
            out.append((ev, ev.args[-1], ce))
    return out


def container_field(expr):
    """vec_content(field(deref(field(self,'lib')), 'guards')) -> ('guards', owner expr)"""
    if expr.op == "vec_content" and expr.args[0].op == "field":
        return expr.args[0].args[1], expr.args[0].args[0]
    return None, None


def injector_adt(tm, guard_adt):
    """The crate ADT that has a field of type Vec<guard>: (adt path, field name, field index)."""
    for p, a in tm.facts.adts.items():
        for v in a["variants"]:
            for i, f in enumerate(v["fields"]):
                t = f["ty"]
                if t["k"] == "adt" and t["path"] in ("std::vec::Vec", "std::collections::VecDeque") and t.get("args"):
                    it = t["args"][0].get("ty")
                    if it and it["k"] == "adt" and it["path"] == guard_adt:
                        return p, f["name"], i, t["path"]
    return None, None, None, None


def calls_in(body):
    out = []
    for bi, blk in enumerate(body["blocks"]):
        t = blk["term"]
        if t["k"] == "call" and t["callee"]["k"] == "def":
            c = t["callee"]
            r = c.get("resolved")
            out.append((bi, (r["path"] if r else c["path"]), t, blk["cleanup"]))
    return out


def teardown_order(tm, inj_adt, field, guard_adt):
    """('lifo'|'fifo'|'unknown', explanation, where) for how the injector releases the guards in `field`."""
    drop_fn = None
    for adt, p in tm.drop_impls():
        if adt == inj_adt:
            drop_fn = p
    if drop_fn is None:
        return "fifo", ("%s has no Drop impl: the drop glue drops the elements of `%s` front to back, i.e. in installation order "
                        "(Vec<T> drops [0], [1], ... in sequence)" % (short(inj_adt), field)), None, None
    body = tm.facts.body(drop_fn)
    names = [n for _, n, t, cl in calls_in(body) if not cl]
    # inline crate-local helpers one level
    for _, n, t, cl in calls_in(body):
        b2 = tm.facts.body(n)
        if b2 is not None and not cl:
            names += [n2 for _, n2, _, cl2 in calls_in(b2) if not cl2]
    sp = body["span"]
    where_ = "%s:%d" % (sp["file"], sp["line"])
    BENIGN = ("::pop", "::pop_back", "::reverse", "::drain", "::rev", "::into_iter", "::next", "::next_back", "::len", "::is_empty",
              "::iter", "::iter_mut", "::as_mut_slice", "::as_slice", "std::mem::take", "std::mem::drop", "::deref", "::deref_mut",
              "::by_ref", "::truncate")
    lifo_markers = [n for n in names if n.endswith("::pop") or n.endswith("::pop_back") or n.endswith("::reverse") or n.endswith("::rev")
                    or "Rev<" in n or n.endswith("::next_back")]
    if lifo_markers:
        # make sure the loop runs until the container is empty: evaluate with loop havoc
        try:
            vs = tm.variants(drop_fn, tag="havoc", havoc_loops=True)
        except Unsupported as e:
            return "unknown", "explicit Drop for %s could not be evaluated: %s" % (short(inj_adt), e), where_, drop_fn
        pops = 0
        exits_on_none = True
        drops_popped = False
        taker = ("::pop", "::pop_back", "::next", "::next_back")
        for v in vs:
            pe = [e for e in v.trace if e.kind == "ext" and e.name.endswith(taker)]
            pops += len(pe)
            if v.status == "backedge":
                if any(e.kind == "drop" and guard_adt in e.name for e in v.trace) or any(e.kind == "ext" and e.name == "std::mem::drop" for e in v.trace):
                    drops_popped = True
            if v.status == "returned" and pe:
                last = [d for d in v.decisions if d[0].op == "discr" and d[0].args[0].op == "ret" and d[0].args[0].args[0] == pe[-1].name]
                dv = last[-1][1] if last else None
                is_none = dv == 0 or (isinstance(dv, tuple) and dv[0] == "otherwise" and 1 in dv[1])
                if not is_none:
                    exits_on_none = False
        # a call that may panic while guards are still in the container hands them to the front-to-back drop glue
        risky = []
        for v in vs:
            for e in v.trace:
                if e.kind in ("ext", "local", "summary", "indirect"):
                    n = e.name
                    if n.endswith(BENIGN) or "Rev<" in n or "Drain<" in n:
                        continue
                    if v.status == "returned":
                        pe_ = [x for x in v.trace if x.kind == "ext" and x.name.endswith(taker)]
                        if pe_ and e.idx > pe_[-1].idx:
                            continue        # after the loop found the container empty
                    risky.append(e)
        if risky:
            r0 = risky[0]
            return "unknown", ("explicit Drop for %s calls %s (at %s) while guards may still be in `%s`: if it panics, unwinding leaves the remaining "
                               "guards to the drop glue, which restores them front to back (oldest first)" % (short(inj_adt), short(r0.name), r0.where(), field)), where_, drop_fn
        reversing = [n for n in lifo_markers if n.endswith("::reverse") or n.endswith("::rev") or "Rev<" in n or n.endswith("::next_back")]
        if any(n.endswith("::pop") or n.endswith("::pop_back") for n in lifo_markers) or (reversing and pops):
            if pops and drops_popped and exits_on_none:
                return "lifo", "explicit Drop for %s takes the guards of `%s` from the back until it is empty and drops each" % (short(inj_adt), field), where_, drop_fn
            return "unknown", ("explicit Drop for %s takes elements from the back but the loop shape is not 'until None, dropping each element' "
                               "(takes=%d, drops=%s, exits-on-None=%s)" % (short(inj_adt), pops, drops_popped, exits_on_none)), where_, drop_fn
        return "lifo", "explicit Drop for %s reverses the container (%s) before the elements are dropped" % (short(inj_adt), ", ".join(short(n) for n in lifo_markers)), where_, drop_fn
    return "fifo", "explicit Drop for %s does not reverse or pop `%s`; the drop glue then drops the elements front to back" % (short(inj_adt), field), where_, drop_fn


def insertion_discipline(tm, guard_adt):
    """Set of insertion kinds used by install roots: 'append' for push/push_back, 'prepend' for insert(0,_)/push_front."""
    kinds = set()
    sites = []
    for p in tm.install_roots():
        for v in tm.variants(p):
            for ev in v.trace:
                if ev.kind == "vec_push" and len(ev.args) == 2 and isinstance(ev.args[1], Adt) and ev.args[1].path == guard_adt:
                    kinds.add("append")
                    sites.append(ev)
                if ev.kind == "ext" and any(isinstance(a, Adt) and a.path == guard_adt for a in ev.args):
                    n = ev.name
                    if n.endswith("::push_back") or n.endswith("::push"):
                        kinds.add("append")
                    elif n.endswith("::push_front"):
                        kinds.add("prepend")
                    elif n.endswith("::insert"):
                        idx = ev.args[1] if len(ev.args) > 2 else None
                        kinds.add("prepend" if isinstance(idx, Int) and idx.is_const() and idx.cval() == 0 else "insert-at-unknown")
                    else:
                        kinds.add("other:" + short(n))
                    sites.append(ev)
    return kinds, sites


def release_rules(ck, tm, g, rule):
    """The release primitive has no call site outside the allocator's reject edge and the guard's destructor, and each
    of them releases exactly a mapping the injector made (shared by C12 R12.3 and C03 R3.7)."""
    allocs = set(allocator_fns(tm))
    # functions "owned" by the destructor / allocator: private helpers all of whose crate-local callers are owned
    callers = {}
    for b in tm.facts.fn_bodies():
        for name, foreign, local, t in tm.facts.callees_of(b):
            if local and tm.facts.body(name) is not None:
                callers.setdefault(name, set()).add(b["path"])
    owned = set(allocs) | ({g.drop_fn} if g.drop_fn else set())
    changed = True
    while changed:
        changed = False
        for f, cs in callers.items():
            if f not in owned and cs and cs <= owned and not (tm.facts.fns.get(f) or {}).get("reachable"):
                owned.add(f)
                changed = True
    nfree = 0
    for b in tm.facts.fn_bodies():
        for name, foreign, local, t in tm.facts.callees_of(b):
            if name in FREE_FFI:
                nfree += 1
                ok = b["path"] in owned
                ck.ob(rule, "release-site/%s" % short(b["path"]), tm.target, ok,
                      "%s is called in %s (%s)" % (short(name), b["path"], "allocator reject edge / guard destructor" if ok else "NOT an owner of mappings"),
                      "%s:%d" % (t["span"]["file"], t["span"]["line"]))
    ck.floor(rule, "release-sites", nfree, 1 if tm.arch == "arm" else 2, tm.target)
    for p in allocs:
        try:
            vs = allocator_variants(tm, p)
        except Exception as e:
            ck.ob(rule, "allocator/%s/analysable" % short(p), tm.target, False, "allocator could not be analysed: %s" % e)
            continue
        for v in vs:
            frees = [e for e in v.trace if e.kind == "ffi" and e.name in FREE_FFI]
            maps = [e for e in v.trace if e.kind == "ffi" and e.name in ALLOC_FFI]
            if v.status == "returned":
                ck.ob(rule, "allocator/%s/accepted-not-released" % short(p), tm.target, not frees,
                      "accepting path releases %d mapping(s)" % len(frees))
            for f in frees:
                okp = maps and isinstance(f.args[0], Int) and same_expr(f.args[0].e, maps[-1].ret.e)
                if tm.os == "windows":
                    oks = f.args[1].is_const() and f.args[1].cval() == 0
                else:
                    oks = same_expr(f.args[1].e, maps[-1].args[1].e) if maps else False
                ck.ob(rule, "allocator/%s/reject-releases-own-mapping" % short(p), tm.target, bool(okp and oks),
                      "reject edge calls %s(%s, %s) for the mapping %s of size %s" % (short(f.name), fmt(f.args[0].e, 3), fmt(f.args[1].e, 3),
                                                                                        fmt(maps[-1].ret.e, 3) if maps else "?", fmt(maps[-1].args[1].e, 3) if maps else "?"), where(f))

