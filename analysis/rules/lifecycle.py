"""Shared analysis of the installation life cycle: the restore guard's field roles (derived from its destructor),
the guard values built by install roots, the injector's container and teardown order."""
from .common import *
from .codewrite import *
from . import patches
from ..interp import Machine, Unsupported, get_path
from .. import cfg as cfgmod


def self_field(e):
    """Field path (tuple of names) of an expression rooted at deref(self), looking through Option payloads / NonNull; None
    otherwise. field(deref(self),'a') -> ('a',) ; field(field(deref(self),'site'),'ptr') -> ('site','ptr')."""
    from .roles import self_path
    p = self_path(e)
    return p if p else None


def pname(path):
    return ".".join(path) if path else "?"


class GuardRoles:
    def __init__(self):
        self.adt = None
        self.drop_fn = None
        self.addr = self.saved = self.len = self.jit_ptr = self.jit_size = None
        self.len_is_saved_len = False      # the destructor restores the whole saved buffer (count = saved.len())
        self.problems = []


def guard_roles(tm):
    g = GuardRoles()
    g.adt, g.drop_fn = tm.guard_drop()
    if g.adt is None:
        g.problems.append("no crate type whose Drop reaches a raw code write")
        return g
    vs = tm.variants(g.drop_fn)
    for v in vs:
        for ev in code_writes(v):
            a = self_field(resolve_alias(v, ev.extra["dst"])[0].e)
            if a:
                g.addr = a
            ce = ev.extra["count"].e
            c = self_field(ce)
            if c:
                g.len = c
            elif ce.op == "vec_len" and self_field(ce.args[0]):
                g.len_is_saved_len = True
            s = ev.extra.get("src")
            se = s.e if isinstance(s, Int) else (s if isinstance(s, E) else None)
            if se is not None:
                x = se
                if x.op == "vec_ptr":
                    x = x.args[0]
                if x.op == "prefix":
                    x = x.args[0]
                if x.op == "vec_content":
                    f = self_field(x.args[0])
                    if f:
                        g.saved = f
        for ev in v.trace:
            if ev.kind == "ffi" and ev.name in FREE_FFI:
                p = self_field(ev.args[0].e) if isinstance(ev.args[0], Int) else None
                if p:
                    g.jit_ptr = p
                if len(ev.args) > 1 and isinstance(ev.args[1], Int):
                    z = self_field(ev.args[1].e)
                    if z:
                        g.jit_size = z
    return g


def guard_field(gv, adtfacts, path):
    """Nested field `path` of an abstract guard value (looks through Option::Some / NonNull); an Option::None on the way
    yields a null pointer constant (nothing mapped)."""
    from .roles import get_by_path
    if not isinstance(gv, Adt) or not path:
        return None
    v = get_by_path(gv, path)
    if v == "none":
        return int_const(0, 64)
    return v


def pushed_guards(variant, guard_adt):
    """(event, guard value, container expr) for every push of a guard-typed value."""
    out = []
    for ev in variant.trace:
        if ev.kind == "vec_push" and len(ev.args) == 2 and isinstance(ev.args[1], Adt) and ev.args[1].path == guard_adt:
            out.append((ev, ev.args[1], ev.args[0].e))
        elif ev.kind == "ext" and ev.name.split("::")[-1] in ("push", "push_back", "push_front", "insert") and ev.args and \
                isinstance(ev.args[-1], Adt) and ev.args[-1].path == guard_adt:
            c = ev.args[0]
            ce = c.e if isinstance(c, (Opaque, Int)) else E("container", (repr(c),))
            out.append((ev, ev.args[-1], ce))
    return out


def container_field(expr):
    """vec_content(field(deref(field(self,'lib')), 'guards')) -> ('guards', owner expr); with wrapper types the first field
    name under the dereferenced owner is returned."""
    from .roles import expr_field_names
    names, root = expr_field_names(expr)
    if names:
        return names[0], root
    return None, None


def container_names(expr):
    from .roles import expr_field_names
    return expr_field_names(expr)[0]


def injector_adt(tm, guard_adt):
    """(injector adt, top-level field name, top-level field index, sequence kind) of the public struct that (transitively)
    owns the Vec<guard>."""
    from .roles import guard_container
    r = guard_container(tm.facts, guard_adt)
    if r is None:
        return None, None, None, None
    owner, chain, kind = r
    return owner, chain[0][1], chain[0][2], kind


def container_chain(tm, guard_adt):
    from .roles import guard_container
    r = guard_container(tm.facts, guard_adt)
    return r[1] if r else []


def calls_in(body):
    out = []
    for bi, blk in enumerate(body["blocks"]):
        t = blk["term"]
        if t["k"] == "call" and t["callee"]["k"] == "def":
            c = t["callee"]
            r = c.get("resolved")
            out.append((bi, (r["path"] if r else c["path"]), t, blk["cleanup"]))
    return out


BENIGN_TEARDOWN = ("::pop", "::pop_back", "::reverse", "::drain", "::rev", "::into_iter", "::next", "::next_back", "::len", "::is_empty",
                   "::iter", "::iter_mut", "::as_mut_slice", "::as_slice", "std::mem::take", "std::mem::drop", "::deref", "::deref_mut",
                   "::by_ref", "::truncate")
TAKERS = ("::pop", "::pop_back", "::next", "::next_back")


def _is_seq_of_guard(ty, guard_adt):
    t = ty
    while t and t.get("k") in ("ref", "ptr"):
        t = t.get("inner")
    if t and t.get("k") == "adt" and t.get("path") in ("std::vec::Vec", "std::collections::VecDeque") and t.get("args"):
        it = t["args"][0].get("ty")
        return bool(it and it.get("k") == "adt" and it.get("path") == guard_adt)
    return False


def teardown_functions(tm, guard_adt):
    """Crate functions that take elements from the back of (or reverse) a Vec<guard>: candidates for 'the teardown'."""
    out = []
    for b in tm.facts.fn_bodies():
        for blk in b["blocks"]:
            t = blk["term"]
            if t["k"] == "call" and t["callee"]["k"] == "def" and not blk["cleanup"]:
                c = t["callee"]
                n = (c.get("resolved") or c)["path"]
                if n.endswith(("::pop", "::pop_back", "::reverse", "::rev", "::next_back")) or "Rev<" in n:
                    # does any argument / generic argument mention Vec<guard>?
                    hit = False
                    for a_ in t["args"]:
                        if "place" in a_:
                            ty = b["locals"][a_["place"]["l"]]["ty"]
                            if _is_seq_of_guard(ty, guard_adt) or guard_adt in ty.get("s", ""):
                                hit = True
                    if hit and b["path"] not in out:
                        out.append(b["path"])
    return out


def analyse_teardown_fn(tm, fn, guard_adt, field):
    """('lifo'|'unknown', why) for one teardown function evaluated with its loops havocked."""
    try:
        vs = tm.variants(fn, tag="havoc", havoc_loops=True)
    except Unsupported as e:
        return "unknown", "%s could not be evaluated: %s" % (short(fn), e)
    pops = 0
    exits_on_none = True
    drops_popped = False
    reverses = False
    for v in vs:
        pe = [e for e in v.trace if e.kind == "ext" and e.name.endswith(TAKERS)]
        pops += len(pe)
        if any(e.kind == "ext" and (e.name.endswith("::reverse") or e.name.endswith("::rev") or "Rev<" in e.name or e.name.endswith("::next_back")) for e in v.trace):
            reverses = True
        if v.status == "backedge":
            if any(e.kind == "drop" and guard_adt in e.name for e in v.trace) or any(e.kind == "ext" and e.name == "std::mem::drop" for e in v.trace):
                drops_popped = True
        if v.status == "returned" and pe:
            last = [d for d in v.decisions if d[0].op == "discr" and d[0].args[0].op == "ret" and d[0].args[0].args[0] == pe[-1].name]
            dv = last[-1][1] if last else None
            is_none = dv == 0 or (isinstance(dv, tuple) and dv[0] == "otherwise" and 1 in dv[1])
            if not is_none:
                exits_on_none = False
    risky = []
    for v in vs:
        for e in v.trace:
            if e.kind in ("ext", "local", "summary", "indirect"):
                n = e.name
                if n.endswith(BENIGN_TEARDOWN) or "Rev<" in n or "Drain<" in n:
                    continue
                if v.status == "returned":
                    pe_ = [x for x in v.trace if x.kind == "ext" and x.name.endswith(TAKERS)]
                    if pe_ and e.idx > pe_[-1].idx:
                        continue
                risky.append(e)
    if risky:
        r0 = risky[0]
        return "unknown", ("%s calls %s (at %s) while guards may still be in `%s`: if it panics, unwinding leaves the remaining guards to the "
                           "drop glue, which restores them front to back (oldest first)" % (short(fn), short(r0.name), r0.where(), field))
    takes_back = any(e.name.endswith(("::pop", "::pop_back", "::next_back")) or reverses for v in vs for e in v.trace if e.kind == "ext")
    if pops:
        if takes_back and drops_popped and exits_on_none:
            return "lifo", "%s takes the guards of `%s` from the back until it is empty and drops each" % (short(fn), field)
        return "unknown", ("%s takes elements but the loop shape is not 'from the back until None, dropping each element' (takes=%d, back=%s, "
                           "drops=%s, exits-on-None=%s)" % (short(fn), pops, takes_back, drops_popped, exits_on_none))
    if reverses:
        return "lifo", "%s reverses the container before the elements are dropped" % short(fn)
    return "unknown", "%s does not take or reverse the guards" % short(fn)


def teardown_order(tm, inj_adt, field, guard_adt):
    """('lifo'|'fifo'|'unknown', explanation, where, fn) for how the owner releases its guards. The explicit destructor of
    any struct on the ownership chain (injector ... newtype around the Vec) counts; it must be, or begin by calling, a
    teardown function that empties the container newest-first, with no call that may panic before it."""
    chain = container_chain(tm, guard_adt)
    owners = [c[0] for c in chain]
    dimpls = [(adt, p) for adt, p in tm.drop_impls() if adt in owners]
    if not dimpls:
        return "fifo", ("%s has no Drop impl (nor has a wrapper of `%s`): the drop glue drops the elements front to back, i.e. in installation "
                        "order (Vec<T> drops [0], [1], ... in sequence)" % (short(inj_adt), field)), None, None
    tfs = teardown_functions(tm, guard_adt)
    # outermost destructor first: it runs first
    dimpls.sort(key=lambda x: owners.index(x[0]))
    adt0, dfn = dimpls[0]
    body = tm.facts.body(dfn)
    sp = body["span"]
    where_ = "%s:%d" % (sp["file"], sp["line"])
    if dfn in tfs:
        order, why = analyse_teardown_fn(tm, dfn, guard_adt, field)
        return order, "explicit Drop for %s: %s" % (short(adt0), why), where_, dfn
    # the destructor delegates: its first effectful call must be a teardown function
    try:
        vs = tm.variants(dfn, tag="plain-or-havoc", havoc_loops=True, stop_at=tuple(tfs))
    except Unsupported as e:
        return "unknown", "explicit Drop for %s could not be evaluated: %s" % (short(adt0), e), where_, dfn
    for v in vs:
        if v.status not in ("returned", "backedge"):
            continue
        first = None
        for e in v.trace:
            if e.kind == "local" and e.name in tfs:
                first = e
                break
            if e.kind in ("ext", "summary", "indirect", "ffi") and not e.name.endswith(BENIGN_TEARDOWN):
                return "unknown", ("explicit Drop for %s calls %s (at %s) before the guards are torn down: if it panics, unwinding leaves "
                                   "them to the drop glue, which restores oldest first" % (short(adt0), short(e.name), e.where())), where_, dfn
        if first is None:
            return "fifo", "explicit Drop for %s does not call a teardown of `%s`; the drop glue then drops the elements front to back" % (short(adt0), field), where_, dfn
    t0 = [e.name for v in vs for e in v.trace if e.kind == "local" and e.name in tfs]
    order, why = analyse_teardown_fn(tm, t0[0], guard_adt, field)
    return order, "explicit Drop for %s delegates to %s" % (short(adt0), why), where_, dfn


def insertion_discipline(tm, guard_adt):
    """Set of insertion kinds used by install roots: 'append' for push/push_back, 'prepend' for insert(0,_)/push_front."""
    kinds = set()
    sites = []
    for p in tm.install_roots():
        for v in tm.variants(p):
            for ev in v.trace:
                if ev.kind == "vec_push" and len(ev.args) == 2 and isinstance(ev.args[1], Adt) and ev.args[1].path == guard_adt:
                    kinds.add("append")
                    sites.append(ev)
                if ev.kind == "ext" and any(isinstance(a, Adt) and a.path == guard_adt for a in ev.args):
                    n = ev.name
                    if n.endswith("::push_back") or n.endswith("::push"):
                        kinds.add("append")
                    elif n.endswith("::push_front"):
                        kinds.add("prepend")
                    elif n.endswith("::insert"):
                        idx = ev.args[1] if len(ev.args) > 2 else None
                        kinds.add("prepend" if isinstance(idx, Int) and idx.is_const() and idx.cval() == 0 else "insert-at-unknown")
                    else:
                        kinds.add("other:" + short(n))
                    sites.append(ev)
    return kinds, sites


def release_rules(ck, tm, g, rule):
    """The release primitive has no call site outside the allocator's reject edge and the guard's destructor, and each
    of them releases exactly a mapping the injector made (shared by C12 R12.3 and C03 R3.7)."""
    allocs = set(allocator_fns(tm))
    # functions "owned" by the destructor / allocator: private helpers all of whose crate-local callers are owned
    callers = {}
    for b in tm.facts.fn_bodies():
        for name, foreign, local, t in tm.facts.callees_of(b):
            if local and tm.facts.body(name) is not None:
                callers.setdefault(name, set()).add(b["path"])
    owned = set(allocs) | ({g.drop_fn} if g.drop_fn else set())
    changed = True
    while changed:
        changed = False
        # a closure is part of the function that defines it (the allocator's per-probe attempt handed to a generic scanner)
        for b in tm.facts.fn_bodies():
            q = b["path"]
            if q not in owned and "::{closure#" in q and q.split("::{closure#")[0] in owned:
                owned.add(q)
                changed = True
        for f, cs in callers.items():
            if f not in owned and cs and cs <= owned and not (tm.facts.fns.get(f) or {}).get("reachable"):
                owned.add(f)
                changed = True
    nfree = 0
    for b in tm.facts.fn_bodies():
        for name, foreign, local, t in tm.facts.callees_of(b):
            if name in FREE_FFI:
                nfree += 1
                ok = b["path"] in owned
                ck.ob(rule, "release-site/%s" % short(b["path"]), tm.target, ok,
                      "%s is called in %s (%s)" % (short(name), b["path"], "allocator reject edge / guard destructor" if ok else "NOT an owner of mappings"),
                      "%s:%d" % (t["span"]["file"], t["span"]["line"]))
    # call sites of thin wrappers around the primitive count as release sites too (the wrapper's own site is judged above)
    wrappers = {b["path"] for b in tm.facts.fn_bodies() if b["path"] not in allocs and b["path"] != g.drop_fn and
                any(name in FREE_FFI for name, foreign, local, t in tm.facts.callees_of(b))}
    for b in tm.facts.fn_bodies():
        for name, foreign, local, t in tm.facts.callees_of(b):
            if name in wrappers:
                nfree += 1
    ck.floor(rule, "release-sites", nfree, 1 if tm.arch == "arm" else 2, tm.target)
    for p in allocs:
        try:
            vs = allocator_variants(tm, p)
        except Exception as e:
            ck.ob(rule, "allocator/%s/analysable" % short(p), tm.target, False, "allocator could not be analysed: %s" % e)
            continue
        for v in vs:
            frees = [e for e in v.trace if e.kind == "ffi" and e.name in FREE_FFI]
            maps = [e for e in v.trace if e.kind == "ffi" and e.name in ALLOC_FFI]
            if v.status == "returned":
                ck.ob(rule, "allocator/%s/accepted-not-released" % short(p), tm.target, not frees,
                      "accepting path releases %d mapping(s)" % len(frees))
            for f in frees:
                okp = maps and isinstance(f.args[0], Int) and same_expr(f.args[0].e, maps[-1].ret.e)
                if tm.os == "windows":
                    oks = f.args[1].is_const() and f.args[1].cval() == 0
                else:
                    oks = same_expr(f.args[1].e, maps[-1].args[1].e) if maps else False
                ck.ob(rule, "allocator/%s/reject-releases-own-mapping" % short(p), tm.target, bool(okp and oks),
                      "reject edge calls %s(%s, %s) for the mapping %s of size %s" % (short(f.name), fmt(f.args[0].e, 3), fmt(f.args[1].e, 3),
                                                                                        fmt(maps[-1].ret.e, 3) if maps else "?", fmt(maps[-1].args[1].e, 3) if maps else "?"), where(f))



def chain_mutations(tm, guard_adt):
    """Non-append uses of `&mut` on any level of the ownership chain of the guards container, outside destructors of the
    owners and the teardown functions."""
    from . import scans
    chain = container_chain(tm, guard_adt)
    owners = [c[0] for c in chain]
    excl = tuple(p_ for adt_, p_ in tm.drop_impls() if adt_ in owners) + tuple(teardown_functions(tm, guard_adt))
    out = []
    for i, (adt, fname, fidx) in enumerate(chain):
        last = i == len(chain) - 1
        for fn, what, line in scans.container_mutations(tm.facts, adt, fidx, exclude_fns=excl, allow_local=True):
            out.append((fn, what, line, "%s.%s" % (short(adt), fname)))
    return out


def destructor_always_restores(ck, tm, g, rule):
    """Every normally returning path of the restore guard's destructor performs the restoring write (shared by C02 R2.2,
    C04 R4.7, C05 R5.9): a destructor that skips the restore on some edge - while unwinding, say - leaves the patch in
    place although the injector lock is released and the trampoline may be gone."""
    n = 0
    for v in tm.variants(g.drop_fn):
        if v.status == "returned":
            n += 1
            n_ = len(code_writes(v))
            ck.ob(rule, "every-destructor-path-restores" if n_ == 1 else "destructor-path-without-restore", tm.target, n_ == 1,
                  "a normally returning path of the guard's destructor performs %d restoring write(s)%s" % (
                      n_, "" if n_ == 1 else " [%s]" % fmt_dec(v)))
    ck.floor(rule, "returning-destructor-paths", n, 1, tm.target)
    return n


def restore_lands_on_entry(ck, tm, g, rule, roots):
    """On every returning path of every install root: the guard stored by the installation records, as the address its
    destructor will write to, exactly the address the entry write went to, and as length the number of bytes written there
    (the destructor writes saved[..len] at addr: C02 R2.2). Shared by C02 R2.1 (which also checks the saved bytes), C03 R3.8
    and C16 R16.5: a guard that remembers another address makes the *removal* touch bytes outside the designated entry."""
    n = 0
    for p, func, repl, boolval in roots:
        rn = short(p)
        for v in tm.variants(p):
            if v.status != "returned":
                continue
            pg = pushed_guards(v, g.adt)
            cw = classify_writes(v, func)
            if tm.arch == "arm":
                cw = [(ev, "entry", d, r, a) for ev, _, d, r, a in cw]
            entries = [c for c in cw if c[1] == "entry"]
            if len(pg) != 1 or len(entries) != 1:
                continue
            n += 1
            pev, gv, cont = pg[0]
            eev, _, edst, ereal, alias = entries[0]
            ga, gl = guard_field(gv, None, g.addr), guard_field(gv, None, g.len)
            ok_addr = isinstance(ga, Int) and same_expr(ga.e, ereal.e)
            if g.len_is_saved_len:
                # the destructor writes back everything it saved: then exactly as many bytes must have been saved as were written
                gs = guard_field(gv, None, g.saved)
                ok_len = isinstance(gs, VecV) and gs.content is not None and gs.content.op == "mem" and same_expr(gs.content.args[1], eev.extra["count"].e)
                gl = Int(tm.ptr_bits, False, gs.content.args[1]) if isinstance(gs, VecV) and gs.content is not None and gs.content.op == "mem" else gl
            else:
                ok_len = isinstance(gl, Int) and same_expr(gl.e, eev.extra["count"].e)
                # ... and the saved bytes it will slice `[..len]` out of are at least that many (otherwise the destructor panics on the slice
                # before it restores or releases anything)
                gs = guard_field(gv, None, g.saved) if g.saved else None
                if isinstance(gs, VecV) and gs.content is not None and gs.content.op == "mem":
                    sc = gs.content.args[1]
                    enough = same_expr(sc, eev.extra["count"].e) or (sc.is_const() and eev.extra["count"].is_const() and sc.val >= eev.extra["count"].cval())
                    if not enough:
                        ok_len = False
                        gl = Int(tm.ptr_bits, False, E("saved_only", (sc,), tm.ptr_bits))
            ck.ob(rule, "%s/restore-lands-on-the-entry-written" % rn, tm.target, ok_addr and ok_len,
                  "the guard will restore %s byte(s) at %s; the installation wrote %s byte(s) at %s" % (
                      fmt(gl.e) if isinstance(gl, Int) else gl, fmt(ga.e, 4) if isinstance(ga, Int) else ga,
                      fmt(eev.extra["count"].e), fmt(ereal.e, 4)), where(pev))
    ck.floor(rule, "install-paths-with-one-guard-and-one-entry-write", n, 6, tm.target)
    return n


def restore_before_release(ck, tm, g, rule):
    """In the restore guard's destructor the entry is restored before the trampoline is released: while the entry still branches
    to it the trampoline must stay mapped (a call arriving in between would execute unmapped memory; and when the faked function
    is the release primitive itself the guard's own release call would land in the fake)."""
    n = 0
    for v in tm.variants(g.drop_fn):
        frees = [e for e in v.trace if e.kind == "ffi" and e.name in FREE_FFI]
        wr = code_writes(v)
        if not frees or not wr:
            continue
        n += 1
        ok = max(e.idx for e in wr) < min(e.idx for e in frees)
        ck.ob(rule, "drop/restore-before-release", tm.target, ok,
              "destructor path: restoring write %s the release of the trampoline" % ("precedes" if ok else "comes AFTER"), where(frees[0]))
    return n


LOCK_RECOVERY_BENIGN = ("::into_inner", "::clear_poison", "::get_ref", "::get_mut", "::is_poisoned", "::unwrap_or_else", "::map_err",
                        "::map", "::ok", "::as_ref", "::as_mut", "::deref", "::deref_mut")


def lock_wrapper_cannot_panic(ck, tm, rule):
    """Between acquiring the process-wide lock and handing out its guard - in particular on the poison-recovery path - the lock
    wrapper performs nothing that may panic: a panic there (formatting, printing, allocation, a user callback) unwinds with the
    guard and leaves the mutex poisoned again, for every later caller (shared by C04 R4.2 and C05 R5.1)."""
    n = 0
    for wfn in sorted({b["path"] for b in tm.facts.fn_bodies() for name, _, _, _ in tm.facts.callees_of(b) if is_std_lock(name)}):
        vs = tm.try_variants(wfn) or []
        for v in vs:
            n += 1
            idx = [i for i, e in enumerate(v.trace) if e.kind == "ext" and is_std_lock(e.name)]
            after = v.trace[idx[0] + 1:] if idx else list(v.trace)
            bad = [e for e in after if e.kind in ("ext", "summary", "indirect", "ffi", "raw_write", "raw_store", "diverge")
                   and not e.name.endswith(LOCK_RECOVERY_BENIGN)]
            ck.ob(rule, "%s/%s" % (short(wfn), "nothing-may-panic-while-recovering" if not bad else "may-panic-while-recovering/" + short(bad[0].name)),
                  tm.target, not bad,
                  "%s: after lock() this path calls %s" % (short(wfn), ", ".join(short(e.name) for e in after) or "nothing") +
                  ("" if not bad else ": %s may panic while the freshly acquired (possibly poisoned) guard is alive; unwinding drops the guard "
                                      "and the mutex stays poisoned for every later injector or preventer" % short(bad[0].name)),
                  where(bad[0]) if bad else None)
    return n


def write_protection_obligations(ck, tm, g, rule, install=True, restore=True):
    """Every entry write of an installation, and the restoring write of the guard's destructor, is preceded on its own path by a
    protection change that covers it and allows writing (C01 R1.3). Repeated where a faulting write breaks another property: a write
    into a page that was not (or not successfully) made writable is a SIGSEGV - inside an installation it turns a clean refusal into
    a process abort, inside the destructor it aborts the unwinding that was supposed to restore (C05), and the function is never
    restored (C02). Returns the number of writes decided."""
    n = 0
    if install:
        for r in patches.analyse(tm):
            if r.role != "entry" or r.variant.status != "returned":
                continue
            n += 1
            patches.check_protection(ck, rule, tm, r.root, r.variant, r.ev, r.dst, r.ev.extra["count"], "entry")
    if restore and g.drop_fn:
        for v in tm.variants(g.drop_fn):
            for ev in code_writes(v):
                n += 1
                patches.check_protection(ck, rule, tm, g.drop_fn, v, ev, ev.extra["dst"], ev.extra["count"], "restore")
    return n
