"""C01 — a call to a faked function reaches the fake from every address placement (x86-64 targets)."""
from .common import *
from .codewrite import *
from .patches import check_protection as patches_check_protection

PER_TARGET = True      # every rule below looks at one target configuration at a time (check.py may fork one worker per target)
DECIDED = ("R1.1/R1.2: in every normal variant of every public install root, the bytes written at the function entry decode (independent "
           "x86-64 table) to exactly one unconditional branch whose destination equals, for all address pairs admitted by the path's "
           "guards, the address the trampoline bytes were written to, and the trampoline bytes decode to a branch to the replacement "
           "pointer (or to the boolean stub); R1.3: the protection change preceding an entry write covers [dst, dst+len) under kernel "
           "page rounding; R1.4: the trampoline code fits its mapping; R1.5: function/replacement roles at the public API level; "
           "R1.6: no entry write on any diverging path; R1.7: on AArch64 and 32-bit ARM targets the same destination decision with their "
           "decode tables (entry -> trampoline -> replacement; ARM: literal = replacement, Thumb bit included), detailed by C15 / C16; R1.8: on every install path all trampoline writes precede the entry write (a call that arrives "
           "as soon as the entry is redirected finds a complete trampoline); R1.9: while an entry branches to a trampoline nothing unmaps "
           "it (who-may-release and restore-before-release, C12 R12.3/R12.4); R1.10: every install write is followed by a covering "
           "instruction-cache flush (C17 R17.1/R17.2 on the install paths); R1.11: the trampoline search clips its window at the ends of the address "
           "space, returns only an accepted in-range mapping and advances (C11 R11.1/R11.5/R11.9: a function at a very low address is still "
           "served).")
NOT_DECIDED = ("atomicity of the entry write against threads already executing the function; that the CPU executes the bytes as the "
               "decode table says")


def roots_and_roles(tm):
    """For each public install root: (path, func_ptr Int, replacement Int|None)."""
    out = []
    for p in tm.install_roots():
        body = tm.facts.body(p)
        m = tm.machines[(p, None)]
        vs = tm.variants_for_decode(p)
        args = tm.root_args(m, body)
        ptrs = [find_ptr_leaves(a) for a in args]
        func = ptrs[0][0] if ptrs and ptrs[0] else None
        repl = None
        for pl in ptrs[1:]:
            if pl:
                repl = pl[0]
        out.append((p, func, repl, vs))
    return out


def check_protection(ck, tm, rootname, variant, ev, dst, nbytes, role):
    return patches_check_protection(ck, "R1.3", tm, rootname, variant, ev, dst, nbytes, role)


def run(ck, models, tier):
    ck.decided, ck.not_decided = DECIDED, NOT_DECIDED
    ck.trusted += ["rustc MIR construction and trait resolution", "x86-64 decode table in analysis/isa.py (Intel SDM)",
                   "models of the std functions listed in analysis/models.py"]
    ck.assumptions += ["page size is a power of two >= 4096", "user-space addresses do not wrap around 2^64",
                       "mprotect/VirtualProtect/mach_vm_protect round the range outward to page boundaries"]
    n_roots = 0
    for tm in models:
        if tm.arch != "x86_64":
            # R1.7 the same destination decision on the other architectures (decided in detail by C15 / C16)
            from . import patches
            k = patches.reach_obligations(ck, "R1.7", tm, lambda r: True, "call-reaches-fake")
            ck.floor("R1.7", "patches-with-decided-destination", k, 12 if tm.arch != "arm" else 18, tm.target)
            for m_ in tm.machines.values():
                for f_ in m_.entered:
                    ck.analysed_fn(tm.target, f_)
            continue
        rr = roots_and_roles(tm)
        n_roots += len(rr)
        ck.floor("R1.5", "public-install-roots", len(rr), 6, tm.target)
        for p, func, repl, vs in rr:
            rn = short(p)
            for f in tm.machines[(p, None)].entered:
                ck.analysed_fn(tm.target, f)
            if func is None:
                ck.ob("R1.5", "%s/no-function-pointer" % rn, tm.target, False, "cannot identify the faked function's pointer in the arguments of " + p)
                continue
            normal = [v for v in vs if v.status == "returned"]
            n_entry = n_tramp = 0
            for v in vs:
                cw = classify_writes(v, func)
                if v.status != "returned":
                    # R1.6: a failing install either never touches the function, or (failure *after* the write, e.g. a
                    # failing cache flush) has written a patch that satisfies R1.1 like any other - checked below.
                    bad = [c for c in cw if c[1] == "entry"]
                    if not bad:
                        ck.ob("R1.6", "%s/fail-before-entry-write" % rn, tm.target, True,
                              "diverging path (%s) of %s does not write the function entry before failing" % (v.note, rn))
                        continue
                    ck.info("%s: a path diverges after the entry write (%s); its bytes are checked like a normal path" % (rn, v.trace[-1].where() if v.trace else "?"))
                entries = [c for c in cw if c[1] == "entry"]
                tramps = [c for c in cw if c[1] == "trampoline"]
                if len(entries) != 1:
                    ck.ob("R1.1", "%s/entry-write-count" % rn, tm.target, False,
                          "normal path of %s performs %d writes at the function entry (expected exactly 1) [%s]" % (rn, len(entries), fmt_dec(v)))
                    continue
                if not tramps:
                    # direct form: the entry itself must branch to the replacement
                    eev, _, edst, ereal, alias = entries[0]
                    try:
                        esim, edest = x86_transfer(eev, v)
                        ok, why = dest_equals(edest, repl) if (edest and repl is not None) else (False, "no trampoline and no branch to the replacement")
                        ck.ob("R1.1", "%s/entry/direct/dest" % rn, tm.target, ok, "no trampoline on this path; entry patch decodes to %s; %s" % (
                            " ; ".join(i["mn"] for i in esim["ins"]), why), where(eev))
                        if ok:
                            n_entry += 1
                            check_protection(ck, tm, p, v, eev, edst, eev.extra["count"], "entry")
                    except (RangeProblem, isa.Undecodable) as e:
                        ck.ob("R1.1", "%s/entry/direct/undecodable" % rn, tm.target, False, "entry bytes: %s" % e, where(eev))
                    continue
                # trampoline(s): last trampoline write decides what runs
                tev, _, tdst, _, _ = tramps[-1]
                try:
                    tsim, tdest = x86_transfer(tev, v)
                    form = {"abs": "abs64", "rel": "rel32", "ret": "stub"}.get(tdest[0] if tdest else None, "none")
                    if repl is not None:
                        ok, why = dest_equals(tdest, repl) if tdest else (False, "trampoline bytes contain no control transfer")
                        ck.ob("R1.1", "%s/trampoline/%s/dest" % (rn, form), tm.target, ok,
                              "trampoline (%d bytes at %s) decodes to %s; %s" % (tsim["total"], fmt(tdst.e, 3),
                                                                            " ; ".join(i["mn"] for i in tsim["ins"]), why), where(tev))
                    else:
                        ok = tdest is not None and tdest[0] == "ret"
                        ck.ob("R1.1", "%s/trampoline/stub-returns" % rn, tm.target, ok,
                              "boolean stub decodes to %s and %s" % (" ; ".join(i["mn"] for i in tsim["ins"]),
                                                                     "returns to the caller" if ok else "does NOT end in ret"), where(tev))
                    n_tramp += 1
                    # R1.4 capacity
                    al = alloc_events(v)
                    if al:
                        size = al[-1].args[1] if len(al[-1].args) > 1 else None
                        if isinstance(size, Int) and size.is_const():
                            cap = (size.cval() + 4095) // 4096 * 4096
                            ck.ob("R1.4", "%s/trampoline-capacity" % rn, tm.target, 0 < size.cval() and tsim["total"] <= cap,
                                  "%d code bytes vs mapping of %d requested bytes (%d after page rounding)" % (tsim["total"], size.cval(), cap), where(tev))
                except RangeProblem as e:
                    ck.ob("R1.1", "%s/trampoline/rel-range" % rn, tm.target, False, str(e), where(tev))
                except isa.Undecodable as e:
                    ck.ob("R1.1", "%s/trampoline/undecodable" % rn, tm.target, False, "trampoline bytes: %s" % e, where(tev))
                eev, _, edst, ereal, alias = entries[0]
                try:
                    esim, edest = x86_transfer(eev, v)
                    form = {"abs": "abs64", "rel": "rel32"}.get(edest[0] if edest else None, "none")
                    # the destination formula is relative to where the bytes execute: the real entry, not the write alias
                    if edest and edest[0] == "rel" and alias is not None:
                        edest = ("rel", binop("add", binop("sub", edest[1], edst.e, 64), ereal.e, 64), edest[2])
                    ok, why = dest_equals(edest, tdst) if edest else (False, "entry bytes contain no control transfer")
                    extra = [i["mn"] for i in esim["ins"]]
                    ok2 = all(m in ("jmp_rel", "jmp_reg", "jmp_mem_rip", "mov_imm", "nop") for m in extra)
                    ck.ob("R1.1", "%s/entry/%s/dest" % (rn, form), tm.target, ok and ok2,
                          "entry patch (%d bytes at %s) decodes to %s; %s" % (esim["total"], fmt(ereal.e, 3), " ; ".join(extra), why), where(eev))
                    n_entry += 1
                    check_protection(ck, tm, p, v, eev, edst, eev.extra["count"], "entry")
                    # R1.2: the bytes cover the whole instruction: count written == bytes decoded
                    cnt = eev.extra["count"]
                    ck.ob("R1.2", "%s/entry/complete" % rn, tm.target, cnt.is_const() and cnt.cval() >= esim["used"],
                          "copy count %s vs %d bytes of decoded instructions" % (fmt(cnt.e), esim["used"]), where(eev))
                except RangeProblem as e:
                    ck.ob("R1.1", "%s/entry/rel-range" % rn, tm.target, False, str(e), where(eev))
                except isa.Undecodable as e:
                    ck.ob("R1.1", "%s/entry/undecodable" % rn, tm.target, False, "entry bytes: %s" % e, where(eev))
            ck.floor("R1.1", "%s/normal-variants-with-entry-write" % rn, n_entry, 1, tm.target)
    # R1.8 the trampoline is complete before the entry branches to it
    from . import patches as _p
    for tm in models:
        if tm.arch != "arm":
            k = _p.order_obligations(ck, "R1.8", tm)
            ck.floor("R1.8", "install-paths-with-entry-and-trampoline", k, 6, tm.target)
    # R1.9 the trampoline a live entry branches to stays mapped: the release primitive is applied to nothing but the allocator's own
    # rejected result and, in the guard's destructor, the guard's own mapping - after the entry is restored (C12 R12.3/R12.4)
    # R1.10 the written entry and trampoline are what the cores execute: each install write is followed by a covering flush (C17)
    from .lifecycle import guard_roles, release_rules, restore_before_release
    from .c17 import flush_obligations
    for tm in models:
        g_ = guard_roles(tm)
        if tm.arch != "arm" and g_.adt:
            release_rules(ck, tm, g_, "R1.9")
            restore_before_release(ck, tm, g_, "R1.9")
        if tm.os == "macos":
            # R1.3 (macOS): the trampoline is writable when it is written and executable afterwards
            kw = _p.jit_window_obligations(ck, "R1.3", tm)
            ck.floor("R1.3", "trampoline-writes-in-a-jit-write-window", kw, 6, tm.target)
        if tm.arch != "arm":
            # R1.3 (trampoline): the mapping is requested writable and executable
            km = mapping_request_obligations(ck, "R1.3", tm)
            ck.floor("R1.3", "mapping-requests-checked", km, 1, tm.target)
        # R1.11 "at very low addresses ... fails loudly": the trampoline search clips its window at the ends of the address space instead of
        # wrapping, returns only a mapping it accepted inside the branch range, and makes progress (C11 R11.1, R11.5, R11.9 repeated)
        if tm.arch != "arm":
            from .c11 import allocator_obligations
            allocator_obligations(ck, tm, lambda r: "R1.11" if r in ("R11.1", "R11.5", "R11.9") else None)
        k10 = flush_obligations(ck, tm, ("R1.10", "R1.10"), install=True, restore=False)
        ck.floor("R1.10", "install-writes-checked-for-flush", k10, 6, tm.target)
    if any(tm.arch == "x86_64" for tm in models):
        ck.floor("R1.5", "x86_64-install-roots-total", n_roots, 6)
