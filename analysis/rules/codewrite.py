"""Classification and decoding of the code writes found in the abstract traces of install roots.

Roles are assigned by value, not by name: an *entry* write targets the function being faked (the pointer carried by
the builder / first routine parameter, possibly through the macOS remap alias or with the Thumb bit cleared), a
*trampoline* write targets the result of the allocation made in the same installation, a *restore* write targets
the guard's saved address.
"""
from .common import *


def resolve_alias(variant, dst):
    """macOS: mach_vm_remap(task, &mut X, n, mask, flags, task, A, ...) makes X an alias of [A, A+n)."""
    e = dst.e
    if e.op == "out" and e.args[0] == "mach2::vm::mach_vm_remap" and e.args[2] == 1:
        k = 0
        for ev in variant.trace:
            if ev.name == "mach2::vm::mach_vm_remap":
                if k == e.args[1]:
                    a = ev.args[6]
                    if isinstance(a, Int):
                        return a, ev
                k += 1
    return dst, None


def written_bytes(ev):
    if ev.extra.get("src_kind") == "bytes":
        return ev.extra["src"]
    return None


def alloc_result_exprs(variant):
    return [(e, e.ret) for e in alloc_events(variant) if isinstance(e.ret, Int)]


def classify_writes(variant, func_ptr):
    """Returns list of (event, role, dst Int, alias_event) for each raw code write of the variant."""
    out = []
    allocs = alloc_result_exprs(variant)
    for ev in code_writes(variant):
        dst = ev.extra["dst"]
        real, alias_ev = resolve_alias(variant, dst)
        role = "other"
        if func_ptr is not None and same_expr(real.e, func_ptr.e):
            role = "entry"
        elif any(same_expr(dst.e, a.e) for _, a in allocs):
            role = "trampoline"
        out.append((ev, role, dst, real, alias_ev))
    return out


# ------------------------------------------------------------------------------------------------ x86-64 semantics

def x86_transfer(ev, variant):
    """Decode the bytes of a raw write as x86-64 and return (sim, dest) where dest is ('abs', bits64) | ('rel', E 64-bit
    expression of the destination) | ('ret',) | None; raises isa.Undecodable."""
    bs = written_bytes(ev)
    if bs is None:
        raise isa.Undecodable("bytes written are not statically known (source %s)" % ev.extra.get("src_kind"))
    ins, used = isa.decode_x86(bs)
    sim = isa.simulate_x86(ins, bs)
    sim["ins"] = ins
    sim["used"] = used
    sim["total"] = len(bs)
    t = sim["transfer"]
    if t is None:
        return sim, None
    if t["kind"] == "ret":
        return sim, ("ret",)
    if t["kind"] == "jmp_reg":
        if t["bits"] is None:
            raise isa.Undecodable("jmp through %s which the sequence never loads" % t["reg"])
        return sim, ("abs", t["bits"], t["reg"])
    if t["kind"] == "jmp_rel":
        imm = t["imm"]
        w = t["immw"]
        dst = ev.extra["dst"]
        e = imm.e
        if e.is_const():
            disp = const(to_signed(e.val, w), 64)
            src_expr = None
        elif e.op == "extract" and e.args[1] == 0 and e.args[0].w == 64:
            src_expr = e.args[0]
            lo, hi = guards.interval_of(src_expr, variant.decisions, signed=True)
            if not guards.within((lo, hi), -(1 << (w - 1)), (1 << (w - 1)) - 1):
                rp = RangeProblem("rel%d displacement %s is only known to lie in [%s, %s] on this path, not in the signed %d-bit range: "
                                  "the truncated immediate may wrap" % (w, fmt(src_expr, 4), lo, hi, w), src_expr, (lo, hi))
                rp.sim = sim
                raise rp
            disp = src_expr
        else:
            raise isa.Undecodable("rel%d immediate is not the low bits of one 64-bit value: %s" % (w, fmt(e, 4)))
        dest = binop("add", binop("add", dst.e, const(t["end"], 64), 64), disp, 64)
        return sim, ("rel", dest, (src_expr, w))
    raise isa.Undecodable("unknown transfer " + t["kind"])


class RangeProblem(Exception):
    def __init__(self, msg, expr, iv):
        Exception.__init__(self, msg)
        self.expr = expr
        self.iv = iv
        self.sim = None


def dest_equals(dest, target):
    """dest from x86_transfer / a64 analysis vs expected 64-bit target Int. Returns (ok, why)."""
    if dest[0] == "abs":
        bits = dest[1]
        exp = tuple(bit(target.e, i) for i in range(64))
        for i in range(64):
            if bits[i] != exp[i]:
                return False, "bit %d of the loaded address is %s, expected bit %d of %s" % (i, fmt(bits[i], 3) if isinstance(bits[i], E) else bits[i], i, fmt(target.e, 3))
        return True, "imm64 is bit-for-bit %s" % fmt(target.e, 3)
    if dest[0] == "rel":
        if affine_equal(dest[1], target.e, 64):
            return True, "next_ip + sext(imm) == %s for every address pair on this path" % fmt(target.e, 3)
        return False, "branch lands at %s, expected %s" % (fmt(dest[1], 5), fmt(target.e, 3))
    return False, "no branch"


# ------------------------------------------------------------------------------------------------ allocator contract

def allocator_fns(tm):
    """Crate functions that own the placement search: those calling the platform mapping primitive directly, or - when that
    caller is a loop-free wrapper around the primitive - the unique chain of callers up to the first function with a loop."""
    from .. import cfg as cfgmod
    direct = []
    callers = {}
    for b in tm.facts.fn_bodies():
        for blk in b["blocks"]:
            t = blk["term"]
            if t["k"] == "call" and t["callee"]["k"] == "def":
                from ..facts import canon_foreign
                n = canon_foreign((t["callee"].get("resolved") or t["callee"])["path"], t["callee"].get("foreign"))
                if n in ALLOC_FFI and b["path"] not in direct:
                    direct.append(b["path"])
                callers.setdefault(n, set()).add(b["path"])

    def own_loop(p):
        b = tm.facts.body(p)
        return bool(b) and bool(cfgmod.CFG(b).back_edges())

    def has_loop(p, depth=0, seen_=None):
        # a loop of its own, or in a crate-local helper it calls (a generic scanner taking the per-probe attempt as a closure)
        seen_ = seen_ if seen_ is not None else set()
        if p in seen_ or depth > 3:
            return False
        seen_.add(p)
        if own_loop(p):
            return True
        b = tm.facts.body(p)
        if not b:
            return False
        for name, foreign, local, t in tm.facts.callees_of(b):
            if local and tm.facts.body(name) is not None and has_loop(name, depth + 1, seen_):
                return True
        return False
    out = []
    for p in direct:
        if "::{closure#" in p:
            p = p.split("::{closure#")[0]          # the probe is a closure: the search belongs to the function that builds it
        q, seen = p, set()
        while not has_loop(q) and q not in seen:
            seen.add(q)
            cs = callers.get(q, set()) - {q}
            if len(cs) != 1:
                q = p if not has_loop(q) else q
                break
            q = next(iter(cs))
            if "::{closure#" in q:
                q = q.split("::{closure#")[0]
        if not has_loop(q):
            q = p
        if q not in out:
            out.append(q)
    return out


def allocator_variants(tm, path):
    # loops of crate-local helpers the allocator calls (a generic scanner taking the per-probe attempt as a closure) are summarised the
    # same way as its own
    from .. import cfg as cfgmod
    helpers, todo, seen = set(), [path], set()
    while todo:
        q = todo.pop()
        if q in seen or len(seen) > 12:
            continue
        seen.add(q)
        b = tm.facts.body(q)
        if not b:
            continue
        if q != path and cfgmod.CFG(b).back_edges():
            helpers.add(q)
        for name, foreign, local, t in tm.facts.callees_of(b):
            if local and tm.facts.body(name) is not None:
                todo.append(name)
    return tm.variants(path, tag="havoc", havoc_loops=True, havoc_in=frozenset(helpers))


def allocator_contract(tm, path):
    """From the loop-summarised allocator: (src Int, list of accepted-distance bounds R per returning variant,
    problems). A returning variant must return the mapping call's result under `abs_diff(result, src) <= / < R`."""
    vs = allocator_variants(tm, path)
    body = tm.facts.body(path)
    m = tm.machines[(path, "havoc")]
    args = tm.root_args(m, body)
    srcs = find_ptr_leaves(args[0]) if args else []
    if not srcs and args and isinstance(args[0], Ref):
        from ..interp import get_path
        srcs = find_ptr_leaves(get_path(args[0].cell.val, args[0].path))
    src = srcs[0] if srcs else None
    res = []
    for v in vs:
        if v.status != "returned":
            continue
        ret = v.ret
        bound = None
        if not isinstance(ret, Int):
            # the mapping handed back inside a struct: the field carrying the result of the mapping call
            maps_ = [e for e in v.trace if e.kind == "ffi" and e.name in ALLOC_FFI and isinstance(e.ret, Int)]
            def leaves(x, d=0):
                if isinstance(x, Int):
                    yield x
                elif isinstance(x, Adt) and d < 4:
                    for f in x.fields:
                        yield from leaves(f, d + 1)
            cands = [x for x in leaves(ret) if maps_ and same_expr(x.e, maps_[-1].ret.e)]
            if len(cands) == 1:
                ret = cands[0]
        if isinstance(ret, Int) and src is not None:
            for x, s, lo, hi in guards.bounds(v.decisions):
                if x.op in ("abs_diff", "abs_diff_s") and {x.args[0], x.args[1]} == {ret.e, src.e} and hi != guards.INF:
                    bound = hi if bound is None else min(bound, hi)
        res.append((v, ret, bound))
    return src, res


def alloc_bound_for(tm):
    """Largest accepted |placement - function| over the allocator variants of this target (None if unbounded/unknown)."""
    best = None
    for p in allocator_fns(tm):
        try:
            src, res = allocator_contract(tm, p)
        except Exception:
            return None
        for v, ret, b in res:
            if b is None:
                return None
            best = b if best is None else max(best, b)
    return best


# ------------------------------------------------------------------------------------------------ AArch64 semantics

def narrow(e, w=64):
    """Rebuild an expression at width w dropping integer extensions/truncations (sound when the value is known, from
    a dominating guard, to be representable at width w)."""
    if e.is_const():
        return const(to_signed(e.val, e.w), w) if e.w and e.w > w else const(e.val, w)
    if e.op in ("zext", "sext", "trunc"):
        return narrow(e.args[0], w)
    if e.op in ("add", "sub", "mul"):
        return binop(e.op, narrow(e.args[0], w), narrow(e.args[1], w), w)
    if e.op == "neg":
        return neg(narrow(e.args[0], w))
    if e.w == w:
        return e
    return E(e.op, e.args, w)


def field_source(bits):
    """If the field bits are bits k..k+n-1 of one expression, return (expr, k); constants -> ('const', value)."""
    if all(b == 0 or b == 1 for b in bits):
        v = 0
        for i, b in enumerate(bits):
            v |= b << i
        return "const", v
    b0 = bits[0]
    if isinstance(b0, E) and b0.op == "bit":
        src, k = b0.args
        for i, b in enumerate(bits):
            if not (isinstance(b, E) and b.op == "bit" and b.args[0] == src and b.args[1] == k + i):
                return None, None
        return src, k
    return None, None


def is_page_of(e, T, shift=12):
    """e == T & !(2^shift - 1) ?"""
    if e.op == "bits":
        for i, b in enumerate(e.args):
            if i < shift:
                if b != 0:
                    return False
            elif b != bit(T, i):
                return False
        return True
    if e.op == "and":
        for x, m in ((e.args[0], e.args[1]), (e.args[1], e.args[0])):
            if m.is_const() and m.val == (mask(e.w) & ~((1 << shift) - 1)) and same_expr(x, T):
                return True
    return False


def a64_branch_dest(ev, variant, pc, alloc_bound=None):
    """Decode an A64 patch written by event `ev` that will execute at address `pc` (Int). Returns (sim, dest, notes):
    dest = ('bits', 64 bits) | ('expr', E) | ('ret',) ; raises Undecodable / RangeProblem."""
    bs = written_bytes(ev)
    if bs is None:
        raise isa.Undecodable("bytes written are not statically known")
    ins = isa.decode_a64(bs)
    sim = isa.simulate_a64(ins, code=bs)
    sim["ins"] = ins
    sim["total"] = len(bs)
    t = sim["transfer"]
    notes = []
    if t is None:
        return sim, None, notes
    if t["kind"] == "ret":
        return sim, ("ret", t["reg"]), notes
    if t["kind"] == "br":
        val = t["val"]
        if val is None:
            raise isa.Undecodable("BR through %s which the sequence never loads" % t["reg"])
        if isinstance(val, tuple):
            return sim, ("bits", val, t["reg"]), notes
        if isinstance(val, dict) and val["kind"] == "adrp+add":
            return sim, ("adrp", val, t["reg"]), notes
        raise isa.Undecodable("BR through %s holding an incomplete address (%s)" % (t["reg"], val.get("kind")))
    if t["kind"] == "b":
        src, k = field_source(t["imm26"])
        if src == "const":
            off = to_signed(k, 26) * 4
            return sim, ("expr", binop("add", pc.e, const(off + t["off"], 64), 64)), notes
        if src is None:
            raise isa.Undecodable("imm26 of B is not a contiguous bit-field of one value: %s" % (t["imm26"],))
        if k == 0:
            # imm26 = low26(X), dest = pc + 4*sext26 = pc + 4*X when X in [-2^25, 2^25)
            X = src
            lo, hi = guards.interval_of(X, variant.decisions, signed=True)
            if not guards.within((lo, hi), -(1 << 25), (1 << 25) - 1):
                rp = RangeProblem("B imm26 is the low 26 bits of %s, which on this path is only known to lie in [%s, %s], not in "
                                  "[-2^25, 2^25-1]: an out-of-range displacement would wrap" % (fmt(X, 4), lo, hi), X, (lo, hi))
                rp.sim = sim
                raise rp
            D = None
            if X.op == "sdiv" and X.args[1].is_const() and X.args[1].val == 4:
                D = X.args[0]
            elif X.op == "ashr" and X.args[1].is_const() and X.args[1].val == 2:
                D = X.args[0]
            if D is None:
                raise isa.Undecodable("cannot relate the B displacement %s to a byte distance" % fmt(X, 4))
            notes.append("assumes (trampoline - function) is a multiple of 4 (A64 entries are 4-byte aligned, mappings page aligned)")
            return sim, ("expr", binop("add", binop("add", pc.e, const(t["off"], 64), 64), narrow(D, 64), 64)), notes
        if k == 2:
            Y = src
            lo, hi = guards.interval_of(Y, variant.decisions, signed=True)
            if not guards.within((lo, hi), -(1 << 27), (1 << 27) - 1):
                rp = RangeProblem("B imm26 is bits 2..27 of %s, which on this path is only known to lie in [%s, %s], not in "
                                  "[-2^27, 2^27)" % (fmt(Y, 4), lo, hi), Y, (lo, hi))
                rp.sim = sim
                raise rp
            notes.append("assumes (trampoline - function) is a multiple of 4 (A64 entries are 4-byte aligned, mappings page aligned)")
            return sim, ("expr", binop("add", binop("add", pc.e, const(t["off"], 64), 64), narrow(Y, 64), 64)), notes
        raise isa.Undecodable("imm26 of B starts at bit %d of %s" % (k, fmt(src, 4)))
    raise isa.Undecodable("unexpected transfer %s" % t["kind"])


def a64_dest_equals(dest, target, pc, alloc_bound):
    if dest[0] == "bits":
        exp = tuple(bit(target.e, i) for i in range(64))
        for i in range(64):
            if dest[1][i] != exp[i]:
                return False, "bit %d of the built address is %s, expected bit %d of %s" % (
                    i, fmt(dest[1][i], 3) if isinstance(dest[1][i], E) else dest[1][i], i, fmt(target.e, 3))
        return True, "MOVZ/MOVK chunks are bits 0..63 of %s, each in its own position" % fmt(target.e, 3)
    if dest[0] == "expr":
        if affine_equal(dest[1], target.e, 64):
            return True, "pc + 4*sext(imm26) == %s on this path" % fmt(target.e, 3)
        return False, "branch lands at %s, expected %s" % (fmt(dest[1], 5), fmt(target.e, 3))
    if dest[0] == "adrp":
        val = dest[1]
        s21, k21 = field_source(val["imm21"])
        s12, k12 = field_source(val["imm12"])
        if s12 is None or s12 == "const" or k12 != 0 or not same_expr(s12, target.e):
            return False, "ADD imm12 is not the low 12 bits of %s" % fmt(target.e, 3)
        if s21 is None or s21 == "const" or k21 != 12:
            return False, "ADRP imm21 is not bits 12..32 of a page difference (%s, bit %s)" % (fmt(s21, 4) if isinstance(s21, E) else s21, k21)
        S = s21
        ok_struct = False
        if S.op == "sub" and is_page_of(S.args[0], target.e) and is_page_of(S.args[1], pc.e):
            ok_struct = True
        if not ok_struct:
            return False, "ADRP immediate comes from %s, which is not page(%s) - page(%s)" % (fmt(S, 4), fmt(target.e, 3), fmt(pc.e, 3))
        if alloc_bound is None or alloc_bound > (1 << 32) - 8192:
            return False, "ADRP reach (+/-4 GiB) is not implied by the allocator's accepted distance (%s)" % alloc_bound
        return True, ("ADRP imm21 = bits 12..32 of page(dest)-page(pc), ADD imm12 = dest[0..12]; |dest-pc| <= %#x (allocator contract) "
                      "< 4 GiB so the 21-bit page delta does not wrap" % alloc_bound)
    return False, "no branch"


# ------------------------------------------------------------------------------------------------ 32-bit ARM

ARM_CLASSES = [
    # name, (bit0, bit1) of the function pointer, thumb?, patch address mod 4
    ("A32", (0, 0), False, 0),
    ("T32-aligned", (1, 0), True, 0),
    ("T32-unaligned", (1, 1), True, 2),
]


def arm_class_variants(tm, path, cls):
    """Evaluate root `path` with the faked function's pointer abstracted to entry class `cls` (low two address bits
    fixed, the rest symbolic). The three classes are exhaustive for the code's own case split on bit 0 / address mod 4
    (A32 code is 4-byte aligned, so bit1 = 1 with bit0 = 0 cannot occur)."""
    name, low, thumb, mod4 = cls
    from ..model import subst_int
    state = {"n": 0}

    def argmap(a):
        if state["n"] == 0:
            state["n"] = 1
            ptrs = find_ptr_leaves(a)
            if ptrs:
                f = ptrs[0]

                def fn(i):
                    bits = tuple(low) + tuple(bit(i.e, k) for k in range(len(low), i.w))
                    return Int(i.w, i.signed, E("bits", bits, i.w), bits)

                return subst_int(a, lambda i: i is f, fn)
        return a

    return tm.variants(path, tag="arm:" + name, argmap=argmap)


def refine_arm_class(cls):
    """Split an entry class on the next address bit (used when the code's own case split looks at more than bits 0/1)."""
    name, low, thumb, mod4 = cls
    k = len(low)
    return [("%s/bit%d=%d" % (name, k, v), tuple(low) + (v,), thumb, mod4) for v in (0, 1)]


def arm_patch(ev, thumb, mod4):
    bs = written_bytes(ev)
    if bs is None:
        raise isa.Undecodable("bytes written are not statically known")
    ins = isa.decode_t32(bs) if thumb else isa.decode_a32(bs)
    sim = isa.simulate_arm(ins, thumb, mod4, bs)
    sim["ins"] = ins
    sim["total"] = len(bs)
    return sim


def mapping_request_obligations(ck, rule, tm):
    """The trampoline mapping is requested readable, writable and executable (mmap: PROT_READ|PROT_WRITE|PROT_EXEC on an anonymous
    private mapping; VirtualAlloc: MEM_COMMIT|MEM_RESERVE with PAGE_EXECUTE_READWRITE): without write the trampoline cannot be
    filled in, without execute the first call through the patched entry faults."""
    n = 0
    for p in allocator_fns(tm):
        try:
            vs = allocator_variants(tm, p)
        except Exception as e:
            ck.ob(rule, "%s/mapping-request/analysable" % short(p), tm.target, False, "allocator could not be analysed: %s" % e)
            continue
        seen = set()
        for v in vs:
            for ev in v.trace:
                if ev.kind != "ffi" or ev.name not in ALLOC_FFI or where(ev) in seen:
                    continue
                seen.add(where(ev))
                n += 1
                cst = lambda a: a.cval() if isinstance(a, Int) and a.is_const() else None
                if ev.name.endswith("mmap"):
                    prot, flags = cst(ev.args[2]), cst(ev.args[3])
                    anon = 0x20 if tm.os == "linux" else 0x1000
                    ok = prot is not None and (prot & 7) == 7 and flags is not None and (flags & anon) == anon and (flags & 0x2) == 0x2
                    why = "mmap(prot=%s, flags=%s): needs PROT_READ|PROT_WRITE|PROT_EXEC and MAP_PRIVATE|MAP_ANON" % (
                        hex(prot) if prot is not None else "?", hex(flags) if flags is not None else "?")
                else:
                    typ, prot = cst(ev.args[2]), cst(ev.args[3])
                    ok = typ is not None and (typ & 0x3000) == 0x3000 and prot == 0x40
                    why = "VirtualAlloc(type=%s, protect=%s): needs MEM_COMMIT|MEM_RESERVE and PAGE_EXECUTE_READWRITE" % (
                        hex(typ) if typ is not None else "?", hex(prot) if prot is not None else "?")
                ck.ob(rule, "%s/mapping-requested-rwx" % short(p), tm.target, ok, why, where(ev))
    return n
