"""C08 — every fake! option combination compiles and means the same thing."""
from .common import *
from .macros import *
from . import macros as mac

PER_TARGET = True      # every rule below looks at one target configuration at a time (check.py may fork one worker per target)
NEEDS_WS = True
HARNESS_TIMES = 3       # harness.py: pub const TIMES: usize = 3
DECIDED = ("for every arm of fake! as rustc parsed it at check time: R8.1 one well-typed use per arm (and per instantiation shape) is accepted "
           "by rustc (compile witness; cross-checked with the `meta_variable_misuse` lint on the macro definition); R8.2 the instantiation "
           "expands from its own arm (definition-site span of the generated fn lies in that arm's transcriber); R8.3 common meaning on the "
           "MIR of the generated fake, with the option set read off the matcher: `when` => the condition is evaluated first and its false "
           "edge diverges with no user piece and no counter access; no `when` => nothing but the budget can diverge before the body; "
           "`assign` => runs on the admitted path only and before the result is produced; `returns` => the value expression is evaluated "
           "inside the fake, on every admitted call, with the fake's own parameters, and its result is what is returned; unit arms return (); "
           "`times` => C06 R6.1-R6.4; R8.4 the generated fn's safety/ABI and the recorded fn-pointer type equal the kind declared by the "
           "arm's literal tokens; R8.5 the verifier kind is WithCount iff the arm has `times`; "
           "R8.6 the budget counts this installation's calls only: the counter is reset on the way into the installation (C07 R7.1); "
           "R8.7 sibling agreement: all arms with (resp. without) `times` define the same item names next to the user's fragments (macro_rules items "
           "are unhygienic: an extra const/static/fn in one arm captures that identifier in the user's expressions there)")
NOT_DECIDED = "what the user-supplied expressions themselves do (they are opaque markers here)"

KIND = {"safe": ("Rust", False), "unsafe": ("Rust", True), "extern-C": ("C", True), "extern-system": ("system", True)}


def run(ck, models, tier, ws):
    ck.decided, ck.not_decided = DECIDED, NOT_DECIDED
    ck.trusted += ["rustc macro expansion, type checking and MIR", "std models"]
    for tm in models:
        run_one(ck, tm, tier, ws)


def generated_convention_obligations(ck, tm, tier, ws, rule):
    """For every compiling fake! arm: the function the macro generates has the ABI of the function-pointer type the macro records for
    it (that type is what the signature gate compares with the target's). Repeated by C13: a fake generated with another ABI than the
    one its caller uses reads its arguments from the wrong places, whatever the trampoline does. Returns the number decided."""
    hm = mac.get(ws, tm.facts, tier)
    n = 0
    for mod, d in hm.modules("fake"):
        arm = d["arm"]
        if hm.h.verdicts.get(mod):
            continue
        key = "arm%02d[%s]" % (arm.index, arm.label())
        fake = mod + "::instantiate::fake"
        ff = hm.facts.fns.get(fake)
        rec = None
        for v in hm.variants(mod + "::instantiate"):
            for e in v.trace:
                if e.kind == "ext" and e.name.endswith("FuncPtr::new"):
                    rec = e
        tstr, tkind, tjson = type_of_name(rec.args[1]) if rec else (None, None, None)
        ok = ff is not None and tkind == "fnptr" and tjson is not None and ff["abi"].strip('"') == tjson["abi"].strip('"') and \
            isinstance(rec.args[0], FnVal) and rec.args[0].path == fake
        n += 1
        ck.ob(rule, "%s/generated-fn-has-the-recorded-abi" % key, tm.target, ok,
              "generated fn: abi=%s; recorded fn-pointer type: %s" % (ff["abi"] if ff else None, tstr), "src/interface/macros.rs:%d" % arm.line)
    return n


def sibling_items(ck, tm, hm):
    """R8.7 `macro_rules!` items are not hygienic: a `const`, `static` or `fn` that an arm's expansion defines next to the user's fragments is
    visible to those fragments under its own name. The arms are meant to be the same macro with different options, so they must introduce
    the same item names (per option class: with / without `times`); an arm that introduces one more captures that identifier in the user's
    `when:` / `times:` / `assign:` / `returns:` expressions in that arm only."""
    groups = {}
    for mod, d in hm.modules("fake"):
        if not hm.accepted(mod):
            continue
        pre = mod + "::instantiate::"
        names = frozenset(k[0][len(pre):].split("::")[0] for k in hm.facts.bodies if isinstance(k, tuple) and isinstance(k[0], str)
                          and k[0].startswith(pre) and k[1] is None and not k[0][len(pre):].startswith("{"))
        groups.setdefault(bool(d["arm"].options()["times"]), []).append((d["arm"], names))
    n = 0
    for has_times, lst in groups.items():
        count = {}
        for arm, names in lst:
            count[names] = count.get(names, 0) + 1
        major = max(count, key=lambda k_: count[k_])
        for arm, names in lst:
            n += 1
            extra, missing = sorted(names - major), sorted(major - names)
            ck.ob("R8.7", "arm%02d[%s]/introduces-the-same-items-as-its-siblings" % (arm.index, arm.label()), tm.target, names == major,
                  "items defined by the expansion: %s; its %d sibling arm(s) %s `times` define %s%s" % (
                      sorted(names), len(lst) - 1, "with" if has_times else "without", sorted(major),
                      "" if names == major else " - extra %s, missing %s: an extra item name is captured in the user's fragments of this arm only" % (extra, missing)),
                  "src/interface/macros.rs:%d" % arm.line)
    ck.floor("R8.7", "arms-compared-with-siblings", n, 52)


def run_one(ck, tm, tier, ws):
    hm = mac.get(ws, tm.facts, tier)
    sibling_items(ck, tm, hm)
    from . import roles
    vtypes = roles.verifier_types(tm.facts)
    arms = hmod_arms(hm)
    ck.floor("R8.1", "fake-arms-enumerated", len(arms), 52)
    for l in hm.lints:
        ck.ob("R8.1", "lint/meta-variable-misuse/%s" % l["message"].replace(" ", "-").replace("`", ""), tm.target, False,
              "rustc -W meta_variable_misuse on the macro definition: %s" % l["message"], "%s:%s" % (l["file"], l["line"]))
    if not hm.lints:
        ck.ob("R8.1", "lint/meta-variable-misuse-clean", tm.target, True, "rustc -W meta_variable_misuse reports nothing on the library's macros")
    if hm.h.gen_errors:
        for macro, idx, err in hm.h.gen_errors:
            ck.ob("R8.1", "generator/%s-arm%02d" % (macro, idx), tm.target, False,
                  "cannot generate an instantiation for %s arm %d: %s (unknown metavariable role: extend the filler table)" % (macro, idx, err))
    n_ok = 0
    for mod, d in hm.modules("fake"):
        arm = d["arm"]
        o = arm.options()
        key = "arm%02d[%s]" % (arm.index, arm.label())
        shape = d["shape"]["name"]
        errs = hm.h.verdicts.get(mod) or []
        ck.ob("R8.1", "%s/compiles" % key, tm.target, not errs,
              "%s use of arm %d (matcher at macros.rs:%d, shape %s): %s" % (
                  arm.label(), arm.index, arm.line, shape, "accepted by rustc" if not errs else "REJECTED: %s" % errs[0]["message"]),
              "src/interface/macros.rs:%d" % arm.line)
        if errs:
            continue
        n_ok += 1
        fake = mod + "::instantiate::fake"
        body = hm.facts.body(fake)
        if body is None:
            ck.ob("R8.3", "%s/generated-fn-found" % key, tm.target, False, "no generated `fake` fn in the expansion")
            continue
        ck.analysed_fn("harness:" + tm.target, fake)
        # R8.2 expands from own arm
        line = body["span"]["line"]
        own = arm.tline[0] <= line <= arm.tline[1]
        if not own:
            other = [a.index for a in arms if a.tline[0] <= line <= a.tline[1]]
            ck.info("%s: instantiation expanded from arm %s (shadowed)" % (key, other))
        ck.ob("R8.2", "%s/expands-from-own-arm" % key, tm.target, own,
              "generated fn defined at macros.rs:%d; arm transcriber spans %d..%d" % (line, arm.tline[0], arm.tline[1]))
        # R8.4 kind
        ff = hm.facts.fns.get(fake)
        abi, uns = KIND[o["kind"]]
        ok4 = ff is not None and ff["abi"].strip('"') == abi and ff["unsafe"] == uns
        inst = hm.variants(mod + "::instantiate")
        rec = None
        ver = None
        for v in inst:
            for e in v.trace:
                if e.kind == "ext" and e.name.endswith("FuncPtr::new"):
                    rec = e
            if v.status == "returned" and isinstance(v.ret, Tup):
                for x in v.ret.elems:
                    if isinstance(x, Adt) and any(x.path.split("::")[-1] == vt.split("::")[-1] for vt in vtypes):
                        ver = x
        tstr, tkind, tjson = type_of_name(rec.args[1]) if rec else (None, None, None)
        ok4b = tkind == "fnptr" and tjson is not None and tjson["abi"].strip('"') == abi and tjson["unsafe"] == uns and \
            len(tjson["inputs"]) == d["shape"]["nargs"] and (tjson["output"]["s"] == ("()" if o["unit"] else "i64"))
        okp = rec is not None and isinstance(rec.args[0], FnVal) and rec.args[0].path == fake
        ck.ob("R8.4", "%s/declared-kind-is-generated-kind" % key, tm.target, ok4 and ok4b and okp,
              "arm declares %s; generated fn: abi=%s unsafe=%s; recorded type: %s; recorded pointer is the generated fn: %s" % (
                  o["kind"], ff["abi"] if ff else None, ff["unsafe"] if ff else None, tstr, okp))
        # R8.5 verifier kind
        ck.ob("R8.5", "%s/verifier-kind" % key, tm.target, ver is not None and bool(ver.fields) == bool(o["times"]),
              "verifier %s for an arm %s `times`" % (ver.vname if ver else None, "with" if o["times"] else "without"))
        # R8.3 common meaning
        vs = hm.variants(fake)
        admitted = [v for v in vs if v.status == "returned"]
        ck.ob("R8.3", "%s/has-admitted-path" % key, tm.target, bool(admitted), "%d returning path(s)" % len(admitted))
        # `times` means the same in every arm that has it: a budget edge on which the call diverges before any user piece
        nbud = sum(1 for v in vs if v.status == "diverged" and any("fetch_add" in fmt(d_[0], 6) for d_ in v.decisions[-1:])
                   and not markers(v, ASSIGN + RET))
        ck.ob("R8.3", "%s/%s" % (key, "budget-edge" if o["times"] else "no-budget-edge"), tm.target, (nbud >= 1) == bool(o["times"]),
              "arm %s `times`: %d path(s) diverging on the result of the counter's fetch_add before any user piece" % (
                  "with" if o["times"] else "without", nbud))
        # ... and an admitted call is one of the first N: on every returning path the fetch_add result lies in [0, N-1] (C06 R6.2)
        if o["times"]:
            from .. import guards
            for v in admitted:
                rm = rmw_events(v)
                if not rm:
                    ck.ob("R8.3", "%s/admitted-call-within-budget" % key, tm.target, False, "a returning path of an arm with `times` makes no counter RMW")
                    continue
                lo, hi = guards.interval_of(rm[0].ret.e, v.decisions, signed=False)
                ck.ob("R8.3", "%s/admitted-call-within-budget" % key, tm.target, lo <= 0 and hi == HARNESS_TIMES - 1,
                      "returning path: previous call count in [%s, %s]; `times: N` admits exactly [0, N-1] (N = %d in the harness)" % (lo, hi, HARNESS_TIMES),
                      where(rm[0]))
        for v in vs:
            ms = markers(v)
            conds = markers(v, COND)
            cond_false = any(d_[0].op == "ret" and d_[0].args[0] in COND and d_[1] == 0 for d_ in v.decisions)
            if o["when"]:
                first_ev = v.trace[0] if v.trace else None
                okw = bool(conds) and first_ev is conds[0] and len(conds) == 1
                if okw and d["shape"]["nargs"] == 2:
                    c0, c1 = conds[0].args
                    okw = isinstance(c1, Int) and c1.e.op == "leaf" and isinstance(c0, (Opaque, Ref))      # evaluated on the call's own arguments
                ck.ob("R8.3", "%s/when-guards-the-call" % key, tm.target, okw,
                      "first event of the fake is %s (expected the `when` condition, evaluated once)" % (short(first_ev.name) if first_ev else None))
                if cond_false:
                    others = [e for e in v.trace if e is not conds[0] and (e.kind == "local" or "atomic" in e.name)]
                    ck.ob("R8.3", "%s/rejected-call-has-no-side-effects" % key, tm.target, v.status == "diverged" and not others,
                          "`when` false: status %s, other user pieces / counter accesses: %s" % (v.status, [short(e.name) for e in others]))
                    continue
            else:
                ck.ob("R8.3", "%s/no-condition" % key, tm.target, not conds, "arm without `when` evaluates %d condition(s)" % len(conds))
            if v.status == "diverged":
                # only the budget may diverge here
                budget = any("fetch_add" in fmt(d_[0], 6) for d_ in v.decisions[-1:])
                ck.ob("R8.3", "%s/only-the-budget-diverges" % key, tm.target, o["times"] and budget and not markers(v, ASSIGN + RET),
                      "diverging path after admission test: times=%s, on the budget edge: %s, user pieces run: %d" % (o["times"], budget, len(markers(v, ASSIGN + RET))))
                continue
            if v.status != "returned":
                continue
            asg = markers(v, ASSIGN)
            rts = markers(v, RET)
            if o["assign"]:
                oka = len(asg) == 1 and (not rts or asg[0].idx < rts[0].idx) and (not conds or conds[0].idx < asg[0].idx)
                ck.ob("R8.3", "%s/assign-before-result" % key, tm.target, oka,
                      "assign pieces: %d, result pieces: %d, order ok: %s" % (len(asg), len(rts), oka))
            else:
                ck.ob("R8.3", "%s/no-assign" % key, tm.target, not asg, "arm without `assign` runs %d assign piece(s)" % len(asg))
            if o["returns"]:
                okr = len(rts) == 1 and isinstance(v.ret, Int) and v.ret.e == rts[0].ret.e
                # evaluated with the fake's own parameters
                params_ok = True
                if d["shape"]["nargs"] == 2 and rts:
                    a0, a1 = rts[0].args
                    params_ok = isinstance(a1, Int) and a1.e.op == "leaf" and isinstance(a0, (Opaque, Ref))
                ck.ob("R8.3", "%s/returns-evaluated-per-call-with-arguments" % key, tm.target, okr and params_ok,
                      "result pieces evaluated inside the fake: %d; returned value is its result: %s; called with the fake's parameters: %s" % (len(rts), okr, params_ok))
            else:
                from ..interp import UNIT
                ck.ob("R8.3", "%s/unit-result" % key, tm.target, v.ret is UNIT and not rts, "unit arm returns %r" % (v.ret,))
    ck.floor("R8.1", "fake-instantiations-accepted", n_ok, 52 if tier == "quick" else 104)
    # R8.6 `times` is a budget of *this* installation in every arm: the library resets the shared per-expansion counter on the way
    # into the installation (C07 R7.1 repeated)
    from .c07 import install_resets_counter
    install_resets_counter(ck, tm, "R8.6")


def hmod_arms(hm):
    from .. import harness as hmod
    return hmod.arms_of(hm.lib, "fake")
