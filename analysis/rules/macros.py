"""Shared analysis of the macro instantiation harness (engine E3) for C06, C07, C08, C09, C14."""
import json
from .common import *
from ..interp import Machine, Unsupported
from ..model import TargetModel
from .. import harness as hmod

_cache = {}


class HarnessModel:
    def __init__(self, ws, lib_facts, tier, profile="dev"):
        self.h = hmod.Harness(ws, lib_facts, tier, profile=profile)
        self.h.run()
        self.facts = self.h.facts
        if profile != "dev":
            self.facts.target = "%s@%s" % (self.facts.target.split("@")[0], profile)
        self.tm = TargetModel(self.facts)
        self.stop = {p for p in self.facts.fns if p.startswith("m::")}
        self.lints = self.h.lint_meta_variable_misuse()
        self.lib = lib_facts

    def variants(self, path):
        return self.tm.variants(path, stop_at=self.stop)

    def modules(self, macro=None):
        for name, d in sorted(self.h.modules.items()):
            if macro is None or d["macro"] == macro:
                yield name, d

    def accepted(self, mod):
        return not self.h.verdicts.get(mod)


def get(ws, lib_facts, tier):
    """The harness compiled the way `lib_facts` was: `<triple>@release` facts get the harness without debug assertions."""
    profile = lib_facts.target.split("@", 1)[1] if "@" in lib_facts.target else "dev"
    key = (id(ws), tier, profile)
    if key not in _cache:
        _cache[key] = HarnessModel(ws, lib_facts, tier, profile)
    return _cache[key]


def markers(v, name=None):
    return [e for e in v.trace if e.kind == "local" and e.name.startswith("m::") and (name is None or e.name in name)]


COND = ("m::cond", "m::cond0")
ASSIGN = ("m::assign", "m::assign0")
RET = ("m::ret", "m::ret0")


def rmw_events(v):
    return [e for e in v.trace if e.kind == "ext" and "Atomic" in e.name and e.name.split("::")[-1] in ("fetch_add", "fetch_sub", "fetch_update", "compare_exchange", "swap")]


def counter_accesses(v):
    return [e for e in v.trace if e.kind == "ext" and "atomic::Atomic" in e.name]


def static_of(val):
    e = val.e if isinstance(val, (Opaque, Int)) else None
    while e is not None and e.op in ("deref", "ref"):
        e = e.args[0]
    if e is not None and e.op == "static":
        return e.args[0]
    return None


def type_of_name(val):
    """(type string, kind, structured type) of an Opaque produced by type_name / type_name_of_val."""
    e = val.e if isinstance(val, Opaque) else None
    if e is not None and e.op == "type_name":
        return e.args[0], e.args[1], json.loads(e.args[2])
    if e is not None and e.op == "str":
        return e.args[0], "literal", None
    return None, None, None


def rendered_type_name(val):
    """The string rustc's own type_name implementation renders for the recorded type (exported by the driver), or None."""
    e = val.e if isinstance(val, Opaque) else None
    if e is not None and e.op == "type_name" and len(e.args) > 3:
        return e.args[3]
    return None
