"""C17 — every code modification is followed by an instruction-cache flush covering it."""
from .common import *
from .codewrite import *
from .lifecycle import *

PER_TARGET = True      # every rule below looks at one target configuration at a time (check.py may fork one worker per target)
DECIDED = ("R17.1 in every normal variant of every public install root and of the guard destructor, each code write (dst, len) is followed, "
           "before the routine returns, by the platform's instruction-cache primitive for that target with a range that covers "
           "[dst, dst+len) by value: Linux __clear_cache(dst, dst+len); Windows FlushInstructionCache(_, dst, len) whose failure diverges; "
           "macOS sys_icache_invalidate(p, n) with p the written address or the address the written alias maps (mach_vm_remap) and n >= len; "
           "R17.2 no write to that range after its last flush; R17.3 the restoring write of the destructor is flushed likewise"
           " A returning install path without any recognised code write at the entry is a violation (the code may have been modified through a channel the rules do not follow, and no flush can be shown for it). R17.2 other raw writes must be followed by a flush covering their address - all `count` bytes for write_bytes(dst, val, count).")
NOT_DECIDED = "whether a given CPU needs the flush (the property is about asking the platform); data-cache maintenance inside the primitives"

FLUSH = {"linux": "injector_core::linuxapi::__clear_cache", "windows": "injector_core::winapi::FlushInstructionCache",
         "macos": "injector_core::macosapi::sys_icache_invalidate"}


def covers(tm, fl, dst, real, cnt):
    """Does flush event `fl` cover [dst, dst+cnt) (or the aliased real address range)?"""
    w = tm.ptr_bits
    if tm.os == "linux":
        s, e = fl.args[0], fl.args[1]
        for base in (dst, real):
            ok1, _ = bounds.prove_ge(base.e, s.e, w)
            ok2, _ = bounds.prove_ge(e.e, binop("add", base.e, cnt.e, w), w)
            if ok1 and ok2:
                return True
        return False
    if tm.os == "windows":
        s, n = fl.args[1], fl.args[2]
    else:
        s, n = fl.args[0], fl.args[1]
    for base in (dst, real):
        ok1, _ = bounds.prove_ge(base.e, s.e, w)
        ok2, _ = bounds.prove_ge(binop("add", s.e, n.e, w), binop("add", base.e, cnt.e, w), w)
        if ok1 and ok2:
            return True
    return False


def check_other_writes(ck, tm, label, v, rule="R17.2"):
    """Stores through raw pointers / other raw-write primitives (not the designated copy): they modify memory the rules
    cannot size, so each must be followed by a flush that covers at least its address."""
    for ev in v.trace:
        if ev.kind not in ("raw_write_other", "raw_store"):
            continue
        addr = None
        if ev.kind == "raw_store":
            addr = ev.extra.get("addr")
        elif ev.args and isinstance(ev.args[0], Int):
            addr = ev.args[0]
        later = [e for e in v.trace[ev.idx + 1:] if e.kind == "ffi" and e.name == FLUSH[tm.os]]
        one = int_const(1, tm.ptr_bits)
        if ev.name.endswith("write_bytes") and len(ev.args) >= 3 and isinstance(ev.args[2], Int):
            one = ev.args[2]          # write_bytes(dst, val, count) fills at least `count` bytes (count elements): all of them need the flush
        cov = [e for e in later if addr is not None and covers(tm, e, addr, addr, one)]
        ck.ob(rule, "%s/raw-write-after-last-flush/%s" % (tm.os, short(ev.name)), tm.target, bool(cov),
              "%s: %s at %s is %s by a flush covering it (%d later flush call(s))" % (
                  label, ev.name, fmt(addr.e, 4) if addr is not None else "an unknown address", "followed" if cov else "NOT followed", len(later)), where(ev))


def check_variant(ck, tm, label, v, writes, rules=("R17.1", "R17.2")):
    R1, R2 = rules
    check_other_writes(ck, tm, label, v, R2)
    for ev, role, dst, real, alias in writes:
        cnt = ev.extra["count"]
        later = [e for e in v.trace[ev.idx + 1:] if e.kind == "ffi" and e.name == FLUSH[tm.os]]
        cov = [e for e in later if covers(tm, e, dst, real, cnt)]
        key = "%s/%s/%s" % (tm.os, role, "flush-after-write" if cov else "no-covering-flush")
        ck.ob(R1, key, tm.target, bool(cov),
              "%s: %s write of %s byte(s) at %s is %s by %s (%d later call(s) to the primitive, %d covering)" % (
                  label, role, fmt(cnt.e), fmt(dst.e, 3), "followed" if cov else "NOT followed", short(FLUSH[tm.os]), len(later), len(cov)), where(ev))
        if cov:
            last = cov[-1]
            # R17.2: no later write to an overlapping destination after the last covering flush
            after = [e for e in v.trace[last.idx + 1:] if e.kind == "raw_write" and (same_expr(e.extra["dst"].e, dst.e))]
            ck.ob(R2, "%s/%s/no-write-after-flush" % (tm.os, role), tm.target, not after,
                  "%s: %d write(s) to the same range after its last flush" % (label, len(after)), where(after[0]) if after else where(last))
            if tm.os == "windows":
                # failure of the flush must diverge: there must be a decision on its result
                res = last.ret
                tested = isinstance(res, Int) and any(res.e in (d[0].args if d[0].op in ("eq", "ne") else ()) for d in v.decisions)
                ck.ob(R1, "windows/%s/flush-result-checked" % role, tm.target, tested, "%s: the result of FlushInstructionCache is %s" % (label, "tested" if tested else "ignored"), where(last))


def run(ck, models, tier):
    ck.decided, ck.not_decided = DECIDED, NOT_DECIDED
    ck.trusted += ["rustc MIR", "std models", "__clear_cache / FlushInstructionCache / sys_icache_invalidate synchronise the range they are given"]
    for tm in models:
        g = guard_roles(tm)
        roots = patches.roots_and_roles(tm)
        ck.floor("R17.1", "public-install-roots", len(roots), 6, tm.target)
        nw = 0
        for p, func, repl, boolval in roots:
            for v in tm.variants(p):
                if v.status != "returned":
                    continue
                cw = classify_writes(v, func)
                if tm.arch == "arm":
                    cw = [(ev, "entry", d, r, a) for ev, _, d, r, a in cw]
                nw += len(cw)
                check_variant(ck, tm, short(p), v, cw)
                if not any(c_[1] == "entry" for c_ in cw):
                    # an installation that comes back without a recognised write at the entry either did nothing or modified the code through
                    # a channel the rules do not follow (a file write to /proc/self/mem, a helper process): no flush can be shown for it
                    ck.ob("R17.1", "%s/%s/entry-modified-through-a-recognised-write" % (tm.os, short(p)), tm.target, False,
                          "a path of %s returns normally without any recognised code write at the function's entry: whatever modified the code "
                          "there (if anything) is not followed by a flush the rules can see [%s]" % (short(p), fmt_dec(v)))
        if g.drop_fn:
            for v in tm.variants(g.drop_fn):
                if v.status != "returned":
                    continue
                cw = [(ev, "restore", ev.extra["dst"], resolve_alias(v, ev.extra["dst"])[0], None) for ev in code_writes(v)]
                nw += len(cw)
                check_variant(ck, tm, "guard destructor", v, cw)
        ck.floor("R17.1", "code-writes-checked", nw, 7, tm.target)
        # the primitive itself must exist exactly for this OS (sibling agreement)
        nprim = sum(1 for b in tm.facts.fn_bodies() for name, foreign, local, t in tm.facts.callees_of(b) if name == FLUSH[tm.os])
        ck.floor("R17.1", "flush-primitive-call-sites", nprim, 1, tm.target)
        for key, m in list(tm.machines.items()):
            for f in m.entered:
                ck.analysed_fn(tm.target, f)


def flush_obligations(ck, tm, rules, install=True, restore=True):
    """The flush rules of C17 under another property's rule ids: C01 repeats them for the install writes (a call cannot be said
    to reach the fake while a core may still execute the stale entry), C02 for the restoring write (the function does not behave
    as before until the restored bytes are what the cores execute)."""
    n = 0
    if install:
        for p, func, repl, boolval in patches.roots_and_roles(tm):
            for v in tm.variants(p):
                if v.status != "returned":
                    continue
                cw = classify_writes(v, func)
                if tm.arch == "arm":
                    cw = [(ev, "entry", d, r, a) for ev, _, d, r, a in cw]
                n += len(cw)
                check_variant(ck, tm, short(p), v, cw, rules)
    g = guard_roles(tm)
    if restore and g.drop_fn:
        for v in tm.variants(g.drop_fn):
            if v.status != "returned":
                continue
            cw = [(ev, "restore", ev.extra["dst"], resolve_alias(v, ev.extra["dst"])[0], None) for ev in code_writes(v)]
            n += len(cw)
            check_variant(ck, tm, "guard destructor", v, cw, rules)
    return n
