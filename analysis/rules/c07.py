"""C07 — call counting starts from zero for every installation."""
from .common import *
from .macros import *
from . import macros as mac
from . import roles

PER_TARGET = True      # every rule below looks at one target configuration at a time (check.py may fork one worker per target)
NEEDS_WS = True
DECIDED = ("R7.1 must-pass-through: on every normal path of the installation entry point that takes a (fake, verifier) pair, when the verifier "
           "carries a counter, that counter is reset (store(0) / swap(0) on the verifier's own counter field) before the first installation "
           "effect — or, alternatively, every `times` arm resets its static before building the verifier; R7.2 the counter has no other "
           "writer: in every generated fake the only access is the one RMW (C06 R6.1), in the library the only write is the reset; R7.3 the installation's exclusive window on the shared static extends to its verdict: in the "
           "injector, the field holding the verifiers (the type whose destructor reads the counter) is dropped before the field holding the "
           "MutexGuard (declaration order, or emptied by the explicit destructor); R7.4 the reset reaches every counter: each fake! arm whose "
           "generated function counts on a static hands out a verifier carrying that very static (C06 R6.4)")
NOT_DECIDED = ("two simultaneously live installations built from the same expansion site share one static (inherent to the macro design; "
               "not claimed)")


def run(ck, models, tier, ws):
    ck.decided, ck.not_decided = DECIDED, NOT_DECIDED
    ck.trusted += ["rustc macro expansion and MIR", "std models"]
    for tm in models:
        run_one(ck, tm, tier, ws)


def run_one(ck, tm, tier, ws):
    hm = mac.get(ws, tm.facts, tier)
    # (a) reset in the expansion?
    arms_total = arms_reset = 0
    for mod, d in hm.modules("fake"):
        arm = d["arm"]
        if not arm.options()["times"] or not hm.accepted(mod) or d["shape"]["nargs"] != 2:
            continue
        arms_total += 1
        for v in hm.variants(mod + "::instantiate"):
            st = [e for e in v.trace if e.kind == "ext" and "atomic::Atomic" in e.name and e.name.split("::")[-1] in ("store", "swap")
                  and isinstance(e.args[1], Int) and e.args[1].is_const() and e.args[1].cval() == 0]
            if st:
                arms_reset += 1
                break
    in_expansion = arms_total > 0 and arms_reset == arms_total
    roots = verifier_roots(tm)
    n_paths = install_resets_counter(ck, tm, "R7.1", in_expansion)
    if in_expansion:
        ck.ob("R7.1", "reset-in-expansion", tm.target, True, "all %d `times` arms reset their static before building the verifier" % arms_total)
    ck.floor("R7.1", "install-paths-with-a-counter", n_paths, 1)
    # R7.4 the reset reaches every counter: it goes through the verifier, so every arm whose fake counts must hand out a verifier
    # that carries that counter (C06 R6.4)
    from .c06 import counting_fakes_hand_out_their_counter
    k4 = counting_fakes_hand_out_their_counter(ck, tm, tier, ws, "R7.4")
    ck.floor("R7.4", "counting-arms", k4, 28)
    # R7.2 other writers in the library
    writers = []
    for b in tm.facts.fn_bodies():
        for name, foreign, local, t in tm.facts.callees_of(b):
            if "atomic::Atomic" in name and name.split("::")[-1] in ("store", "swap", "fetch_add", "fetch_sub", "compare_exchange", "fetch_update"):
                if receiver_is_library_static(b, t):
                    continue          # an atomic of the library's own (a diagnostics counter, a cache): it cannot be a fake's per-expansion static
                writers.append((b["path"], name))
    # helpers all of whose crate-local callers are (transitively) installation entry points are part of the installation
    callers = {}
    for b in tm.facts.fn_bodies():
        for name, foreign, local, t in tm.facts.callees_of(b):
            if local and tm.facts.body(name) is not None:
                callers.setdefault(name, set()).add(b["path"])
    allowed = set(roots)
    changed = True
    while changed:
        changed = False
        for f_, cs in callers.items():
            if f_ not in allowed and cs and cs <= allowed:
                allowed.add(f_)
                changed = True
    verdict_under_lock(ck, tm, "R7.3")
    verifiers_kept_until_scope_exit(ck, tm, "R7.3")
    bad = [w for w in writers if w[0] not in allowed]
    ck.ob("R7.2", "no-other-writer-in-library", tm.target, not bad, "atomic writes in the library: %s" % [(short(a), short(b)) for a, b in writers])


def verifier_roots(tm):
    """Install roots one of whose parameters carries a call-count verifier (type found by role: roles.verifier_types)."""
    vt = roles.verifier_types(tm.facts)
    return [p for p in tm.install_roots() if any(roles.mentions_type(i, vt) for i in tm.facts.fns[p]["inputs"])]


def verifier_exprs(tm, p, vtypes):
    """Expressions naming the verifier value(s) among the symbolic arguments of install root p."""
    m = tm.machines.get((p, None))
    if m is None:
        tm.variants(p)
        m = tm.machines[(p, None)]
    out = []

    def walk(v, d=0):
        if d > 6:
            return
        if isinstance(v, Opaque) and v.ty and v.ty.get("k") == "adt" and v.ty.get("path") in vtypes:
            out.append(v.e)
        elif isinstance(v, Adt):
            for x in v.fields:
                walk(x, d + 1)
        elif isinstance(v, Tup):
            for x in v.elems:
                walk(x, d + 1)
        elif isinstance(v, Ref):
            try:
                walk(deref(v), d + 1)
            except Exception:
                pass
    for a in tm.root_args(m, tm.facts.body(p)):
        walk(a)
    return out


def mentions(e, sub):
    if not isinstance(e, E):
        return False
    if e == sub:
        return True
    return any(mentions(a, sub) for a in e.args if isinstance(a, E))


def receiver_is_library_static(body, t):
    """Is the receiver of this call `&STATIC` for a static item of the analysed crate (followed through the temporaries rustc
    introduces: _a = &*_b; _b = const {alloc: &STATIC})?"""
    def src_of(l, depth=0):
        if depth > 4:
            return None
        for blk in body["blocks"]:
            for st in blk["stmts"]:
                if st.get("k") == "assign" and st["place"]["l"] == l and not st["place"]["p"]:
                    rv = st["rv"]
                    if rv.get("k") in ("ref", "rawptr", "copy_for_deref"):
                        return src_of(rv["place"]["l"], depth + 1)
                    if rv.get("k") == "use":
                        op = rv["op"]
                        if op.get("k") == "const":
                            return op.get("val")
                        if op.get("k") in ("copy", "move"):
                            return src_of(op["place"]["l"], depth + 1)
                    return None
        return None
    a0 = t["args"][0] if t.get("args") else None
    if not a0:
        return False
    if a0.get("k") == "const":
        v = a0.get("val")
    elif a0.get("k") in ("copy", "move"):
        v = src_of(a0["place"]["l"])
    else:
        v = None
    return isinstance(v, dict) and v.get("k") == "static"


def install_resets_counter(ck, tm, rule, in_expansion=False):
    """Library part of R7.1 (also C05 R5.7): every path of an installation entry point that takes a verifier resets the
    verifier's counter before its first effect."""
    n_paths = 0
    ok_all = True
    roots = verifier_roots(tm)
    vtypes = roles.verifier_types(tm.facts)
    ck.floor(rule, "install-entry-points-taking-a-verifier", len(roots), 1)
    for p in roots:
        for f in tm.machines[(p, None)].entered:
            ck.analysed_fn(tm.target, f)
        for v in tm.variants(p):
            eff = [e for e in v.trace if is_effect(e)]
            if not eff and v.status != "returned":
                continue
            # which verifier variant is this path about?
            vexprs = verifier_exprs(tm, p, vtypes)
            dv = [d_ for d_ in v.decisions if d_[0].op == "discr" and any(
                mentions(l, ve) for ve in vexprs for l in deps(v, d_[0])[0] | {d_[0]})]
            stores = [e for e in v.trace if e.kind == "ext" and "atomic::Atomic" in e.name and e.name.split("::")[-1] in ("store", "swap")]
            good = [e for e in stores if isinstance(e.args[1], Int) and e.args[1].is_const() and e.args[1].cval() == 0
                    and (not eff or e.idx < min(x.idx for x in eff))]
            # ... or the path has just read the counter and continues on the edge where it is zero ("skip the write if already clean")
            first_eff = min(x.idx for x in eff) if eff else None
            for ld in [e for e in v.trace if e.kind == "ext" and "atomic::Atomic" in e.name and e.name.split("::")[-1] == "load"
                       and (first_eff is None or e.idx < first_eff) and isinstance(e.ret, Int)]:
                for d_ in v.decisions:
                    c_ = d_[0]
                    if c_.op in ("eq", "ne") and any(x == ld.ret.e for x in c_.args) and any(isinstance(x, E) and x.is_const() and x.val == 0 for x in c_.args) \
                            and ((c_.op == "eq" and d_[1] == 1) or (c_.op == "ne" and d_[1] == 0)) \
                            and not any(s_.idx > ld.idx and (first_eff is None or s_.idx < first_eff) for s_ in stores if s_ not in good):
                        good.append(ld)
            has_counter = None
            for d_ in dv:
                # CallCountVerifier::WithCount is variant 0 (first declared); read the variant list to be sure
                adt = [a for pth, a in tm.facts.adts.items() if pth in vtypes]
                if adt:
                    names = [x["name"] for x in adt[0]["variants"]]
                    wc = [i for i, vv in enumerate(adt[0]["variants"]) if vv["fields"]]
                    if isinstance(d_[1], int):
                        has_counter = d_[1] in wc
                    else:
                        has_counter = not all(w in d_[1][1] for w in wc)
            if has_counter is False:
                continue
            n_paths += 1
            if in_expansion:
                continue
            derived = False
            for e in good:
                lv, strs, callees = deps(v, e.args[0].e) if isinstance(e.args[0], (Opaque, Int)) else (set(), set(), set())
                if any(l.op == "leaf" for l in lv) or any(mentions(l, ve) for ve in vexprs for l in lv):
                    derived = True
            ok = bool(good) and derived
            ok_all = ok_all and ok
            ck.ob(rule, "%s/%s" % (short(p), "counter-reset-before-install" if ok else "counter-never-reset"), tm.target, ok,
                  "%s: path installing a fake whose verifier %s: %d reset(s) of the verifier's counter before the first effect%s" % (
                      short(p), "carries a counter" if has_counter else "may carry a counter", len(good),
                      "" if ok else ". The counter is a static created once per expansion site and keeps the calls absorbed by earlier "
                      "installations built by the same line of source: with `times: 1`, the second lifetime that runs the same set-up code "
                      "panics 'called more times than expected' on its first call"), where(eff[0]) if eff else None)
    return n_paths


def verdict_under_lock(ck, tm, rule):
    """The counter behind a `times` fake is one static per expansion site; an installation owns it from the reset (made under
    the injector lock: the install methods hold `&mut` injector, C04 R4.4) until its verdict has read it. The verdict is the
    destructor of the verifier stored in the injector, so in the injector's teardown the field holding the verifiers must be
    gone before the field holding the MutexGuard: Rust drops fields in declaration order after Drop::drop, so either the
    verifier field is declared before the lock field or the explicit destructor empties it."""
    from . import roles, scans
    facts = tm.facts
    vtypes = []
    def loads_a_counter(fn, depth=0, seen=None):
        # the destructor, or a crate-local helper it calls, reads an atomic
        seen = seen if seen is not None else set()
        b = facts.body(fn)
        if b is None or fn in seen or depth > 4:
            return False
        seen.add(fn)
        for name, foreign, local, t in facts.callees_of(b):
            if "atomic::Atomic" in name and name.split("::")[-1] in roles.ATOMIC_READS:
                return True
            if local and loads_a_counter(name, depth + 1, seen):
                return True
        return False
    for adt, dfn in tm.drop_impls():
        if loads_a_counter(dfn):
            vtypes.append(adt)
    ck.floor(rule, "types-whose-destructor-reads-a-counter", len(vtypes), 1, tm.target)
    n = 0
    for p, lockname, lidx, a, opt in roles.lock_holders(facts):
        fields = a["variants"][0]["fields"]
        for i, f in enumerate(fields):
            holds = [t for t, path in roles.components(facts, f["ty"], through_refs=False) if t.get("k") == "adt" and t.get("path") in vtypes]
            if not holds or i == lidx:
                continue
            n += 1
            ok = i < lidx
            how = "declared before"
            if not ok:
                # explicit destructor of the holder that empties the field
                dfn = [d for adt_, d in tm.drop_impls() if adt_ == p]
                emptied = []
                if dfn:
                    every = [b_["path"] for b_ in facts.fn_bodies() if b_["path"] != dfn[0]]
                    emptied = [m for m in scans.container_mutations(facts, p, i, exclude_fns=every, allowed_suffixes=())
                               if m[1].split("::")[-1] in ("clear", "drain", "take") or m[1].endswith("truncate")]
                ok = bool(emptied)
                how = "emptied by the explicit destructor (%s) before" % ", ".join(short(m[1]) for m in emptied) if ok else "declared AFTER"
            ck.ob(rule, "%s/verdict-before-unlock/%s" % (short(p), f["name"]), tm.target, ok,
                  "fields of %s in declaration (= drop) order: %s; `%s` (#%d, holds %s whose destructor reads the call counter) is %s the lock "
                  "field `%s` (#%d)%s" % (short(p), [x["name"] for x in fields], f["name"], i, short(holds[0]["path"]), how, lockname, lidx,
                                         "" if ok else ": the lock is released first, and a thread waiting in the constructor can install the same "
                                         "expansion (resetting and incrementing the shared static) before this installation's verdict reads it"),
                  "%s:%d" % (a["span"]["file"], a["span"]["line"]) if a.get("span") else None)
    ck.floor(rule, "lock-holder-fields-with-a-verifier", n, 1, tm.target)


def verifiers_kept_until_scope_exit(ck, tm, rule):
    """The verdict of an installation is given at scope exit: outside the destructor of the struct that holds them, a `&mut` borrow
    of the verifier container may only flow into an insertion (push / extend / insert / reserve) - removing, replacing or
    clearing elements there drops a verifier, i.e. gives its verdict early, against a counter another installation of the same
    expansion may just have reset."""
    from . import scans
    facts = tm.facts
    vtypes = roles.verifier_types(facts)
    n = 0
    for p, lockname, lidx, a, opt in roles.lock_holders(facts):
        fields = a["variants"][0]["fields"]
        drops = tuple(d for adt_, d in tm.drop_impls() if adt_ == p)
        for i, f in enumerate(fields):
            if i == lidx or not any(t.get("k") == "adt" and t.get("path") in vtypes for t, _ in roles.components(facts, f["ty"], through_refs=False)):
                continue
            n += 1
            muts = scans.container_mutations(facts, p, i, exclude_fns=drops)
            for fn, what, line in muts:
                ck.ob(rule, "%s/%s/mutated-before-scope-exit/%s/%s" % (short(p), f["name"], short(fn), short(what)), tm.target, False,
                      "%s applies %s to %s.%s outside the destructor: a verifier removed there gives its verdict early" % (fn, short(what), short(p), f["name"]),
                      "%s:%d" % (facts.body(fn)["span"]["file"], line))
            ck.ob(rule, "%s/%s/kept-until-scope-exit" % (short(p), f["name"]), tm.target, not muts,
                  "%d non-insertion use(s) of %s.%s outside the destructor" % (len(muts), short(p), f["name"]))
    ck.floor(rule, "verifier-containers", n, 1, tm.target)
