"""Type-driven role discovery that survives wrapper types: transitive containment through crate structs, newtypes,
Option/tuples and references."""
from .common import *

MUTEXGUARD = "std::sync::MutexGuard"
SEQ = ("std::vec::Vec", "std::collections::VecDeque")


def components(facts, ty, depth=0, through_refs=True):
    """Yield (type, path) for `ty` and every type reachable through crate-ADT fields, generic args of std ADTs, tuples, refs."""
    seen = []

    def walk(t, path, d):
        if not t or d > 8:
            return
        yield t, path
        k = t.get("k")
        if k == "adt":
            p = t.get("path")
            a = facts.adts.get(p)
            if a is not None and len(a["variants"]) >= 1:
                for v in a["variants"]:
                    for i, f in enumerate(v["fields"]):
                        yield from walk(f["ty"], path + ((p, f["name"], i),), d + 1)
            else:
                for g in t.get("args", []):
                    if isinstance(g, dict) and g.get("ty"):
                        yield from walk(g["ty"], path + ((p, "<arg>", None),), d + 1)
        elif k in ("ref", "ptr") and through_refs:
            yield from walk(t.get("inner"), path + (("&", "*", None),), d + 1)
        elif k == "tuple":
            for i, e in enumerate(t.get("elems", [])):
                yield from walk(e, path + (("tuple", str(i), i),), d + 1)
        elif k in ("array", "slice"):
            yield from walk(t.get("elem"), path + (("[]", "elem", None),), d + 1)

    yield from walk(ty, (), depth)


def adt_ty(facts, p):
    return {"k": "adt", "path": p, "args": [], "s": p}


def lock_holders(facts):
    """Public crate structs that (transitively, not through references) contain a MutexGuard:
    [(adt path, top-level field name, field index, adt facts, optional: bool (guard sits under an Option))]."""
    out = []
    for p, a in facts.adts.items():
        if a["vis"] != "Public" or len(a["variants"]) != 1:
            continue
        for i, f in enumerate(a["variants"][0]["fields"]):
            hit = None
            for t, path in components(facts, f["ty"], through_refs=False):
                if t.get("k") == "adt" and t.get("path") == MUTEXGUARD:
                    hit = path
                    break
            if hit is not None:
                optional = any(step[0] == "std::option::Option" for step in hit)
                out.append((p, f["name"], i, a, optional))
    return out


def guard_container(facts, guard_adt):
    """(outermost public owner adt, chain) where chain = [(adt, field name, idx), ...] leads from the owner down to the field whose
    type is Vec<guard>/VecDeque<guard>; None if not found."""
    best = None
    for p, a in facts.adts.items():
        if a["vis"] != "Public" or len(a["variants"]) != 1:
            continue
        for t, path in components(facts, adt_ty(facts, p), through_refs=False):
            if t.get("k") == "adt" and t.get("path") in SEQ and t.get("args"):
                it = t["args"][0].get("ty")
                if it and it.get("k") == "adt" and it.get("path") == guard_adt:
                    chain = [s for s in path if s[2] is not None and s[0] in facts.adts]
                    if chain and (best is None or len(chain) < len(best[1])):
                        best = (p, chain, t["path"])
    return best


def expr_field_names(e):
    """vec_content(field(field(deref(x),'a'),'b')) -> ['a','b'] (field names from the outermost owner inwards)."""
    names = []
    x = e
    if x.op == "vec_content":
        x = x.args[0]
    while isinstance(x, E) and x.op == "field":
        names.append(x.args[1])
        x = x.args[0]
    return list(reversed(names)), x


def holds_mut_ref_to(facts, ty, adt):
    for t, path in components(facts, ty):
        if t.get("k") == "ref" and t.get("mut") and (t.get("inner") or {}).get("k") == "adt" and t["inner"].get("path") == adt:
            return True
    return False


def self_path(e):
    """Field path of an expression rooted at deref(<leaf>): field(field(deref(self),'a'),'b') -> ('a','b'); Option payloads
    (downcast + '0') and NonNull unwrapping are skipped. None if not rooted at a dereferenced leaf."""
    names = []
    x = e
    while isinstance(x, E):
        if x.op == "field":
            inner = x.args[0]
            if inner.op == "downcast":
                x = inner.args[0]       # payload of an enum variant (Option::Some.0): transparent
                continue
            names.append(x.args[1])
            x = inner
        elif x.op in ("nn_ptr", "cast", "some_payload"):
            x = x.args[0]
        elif x.op == "deref" and x.args[0].op == "leaf":
            return tuple(reversed(names))
        elif x.op == "deref":
            x = x.args[0]
        elif x.op == "ref":
            x = x.args[0]
        else:
            return None
    return None


def get_by_path(val, path):
    """Fetch a nested field by names from an abstract value, looking through Option::Some and NonNull. Returns the
    value, or the string 'none' when an Option::None is met on the way."""
    cur = val
    for name in path:
        while isinstance(cur, Adt) and cur.path == "std::option::Option":
            if cur.variant == 0:
                return "none"
            cur = cur.fields[0]
        if isinstance(cur, Adt) and cur.fnames and name in cur.fnames:
            cur = cur.field(name)
        else:
            return None
    while isinstance(cur, Adt) and cur.path in ("std::option::Option", "std::ptr::NonNull"):
        if cur.path == "std::option::Option":
            if cur.variant == 0:
                return "none"
            cur = cur.fields[0]
        else:
            cur = cur.fields[0]
    return cur


ATOMIC_READS = ("load", "swap", "compare_exchange", "compare_exchange_weak", "fetch_add", "fetch_sub", "fetch_update", "fetch_and", "fetch_or",
                "fetch_max", "fetch_min")     # every atomic operation that hands the current value back


def verifier_types(facts):
    """Crate types whose destructor (or a crate-local helper it calls) reads an atomic counter: the call-count verifier(s).
    Found by role, not by name."""
    out = []

    def loads(fn, depth, seen):
        b = facts.body(fn)
        if b is None or fn in seen or depth > 4:
            return False
        seen.add(fn)
        for name, foreign, local, t in facts.callees_of(b):
            if "atomic::Atomic" in name and name.split("::")[-1] in ATOMIC_READS:
                return True
            if local and loads(name, depth + 1, seen):
                return True
        return False
    for p, f in facts.fns.items():
        io = f.get("impl_of")
        if io and io.get("trait") == "std::ops::Drop" and loads(p, 0, set()):
            adt = io["self_ty"].get("path")
            if adt and adt not in out:
                out.append(adt)
    return out


def mentions_type(ty, paths):
    """Does the type (JSON) mention one of the ADT paths anywhere?"""
    for t, _ in components_any(ty):
        if t.get("k") == "adt" and t.get("path") in paths:
            return True
    return False


def components_any(ty, depth=0):
    if not ty or depth > 8:
        return
    yield ty, ()
    k = ty.get("k")
    if k == "adt":
        for g in ty.get("args", []):
            if isinstance(g, dict) and g.get("ty"):
                yield from components_any(g["ty"], depth + 1)
    elif k in ("ref", "ptr"):
        yield from components_any(ty.get("inner"), depth + 1)
    elif k == "tuple":
        for e in ty.get("elems", []):
            yield from components_any(e, depth + 1)
    elif k in ("array", "slice"):
        yield from components_any(ty.get("elem"), depth + 1)
