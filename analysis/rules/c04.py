"""C04 — injector and preventer guards are mutually exclusive across threads."""
from .common import *
from .codewrite import *
from .lifecycle import *
from . import scans

PER_TARGET = True      # every rule below looks at one target configuration at a time (check.py may fork one worker per target)
USES_CONTROLS = True
DECIDED = ("lockset/ownership premises that make `std::sync::Mutex` give exclusion for every schedule: R4.1 every construction of a public "
           "struct holding a MutexGuard takes that guard from lock() on one and the same static (no try_lock, no fresh mutex); R4.2 the lock "
           "wrapper returns, on every path and without diverging, the guard of self's mutex (Ok payload or PoisonError::into_inner of the same "
           "call); R4.3 the guard-holding types are neither Clone nor Copy, are built at one site each, and Default resolves to the locking "
           "constructor; R4.4 every public function that reaches a code write or an unmap holds `&mut` injector through its receiver, whose "
           "type is only built inside `&mut self` methods of the injector; R4.5 the injector's restore guards are gone before its MutexGuard "
           "is dropped; R4.6 nothing but the constructions mentions the MutexGuard field; R4.7 the restore guard's destructor restores on every returning "
           "path (no edge, e.g. std::thread::panicking(), on which the lock is handed over with the patch still in place); R4.8 every installation that takes a "
           "call-count verifier resets the counter before its first effect, so the previous holder's calls are never charged to the next one; R4.9 no restore guard is "
           "constructed before its entry write has succeeded (C05 R5.8: otherwise a refused installation aborts the process instead of unwinding)")
NOT_DECIDED = "scheduler fairness beyond 'the guard is released on every exit' (that is the OS mutex)"

MUTEXGUARD = "std::sync::MutexGuard"


def lock_holders(tm):
    """Public crate structs that transitively contain a MutexGuard: (adt, top-level field name, index, adt facts)."""
    from . import roles
    facts = tm.facts if hasattr(tm, "facts") else tm
    return [(p, n, i, a) for p, n, i, a, opt in roles.lock_holders(facts)]


def holder_optional(tm, adt):
    from . import roles
    facts = tm.facts if hasattr(tm, "facts") else tm
    return {p: opt for p, n, i, a, opt in roles.lock_holders(facts)}.get(adt, False)


def guard_leaves(val, out=None):
    """Opaque leaves inside a (possibly wrapped) guard field value, unwrapping newtypes and Option::Some."""
    if out is None:
        out = []
    if isinstance(val, (Opaque, Int)):
        out.append(val)
    elif isinstance(val, Adt):
        for f in val.fields:
            guard_leaves(f, out)
    return out


def aggregate_sites(tm, adt):
    out = []
    for b in tm.facts.fn_bodies():
        for blk in b["blocks"]:
            for st in blk["stmts"]:
                if st["k"] == "assign" and st["rv"]["k"] == "aggregate" and st["rv"]["kind"]["k"] == "adt" and st["rv"]["kind"]["path"] == adt:
                    out.append((b["path"], st))
    return out


def find_adt_values(val, adt, out):
    if isinstance(val, Adt):
        if val.path == adt:
            out.append(val)
        for f in val.fields:
            find_adt_values(f, adt, out)
    elif isinstance(val, (Arr, Tup)):
        for f in val.elems:
            find_adt_values(f, adt, out)


def run(ck, models, tier):
    ck.decided, ck.not_decided = DECIDED, NOT_DECIDED
    ck.trusted += ["rustc MIR", "std::sync::Mutex gives mutual exclusion to the thread owning its guard", "Rust drop order semantics"]
    for tm in models:
        holders = lock_holders(tm)
        ck.floor("R4.1", "guard-holding-structs", len(holders), 2, tm.target)
        statics = set()
        for adt, fname, fidx, a in holders:
            an = short(adt)
            ck.ob("R4.3", "%s/not-clone-copy" % an, tm.target,
                  not tm.facts.has_impl("std::clone::Clone", adt) and not tm.facts.has_impl("std::marker::Copy", adt),
                  "%s: Clone=%s Copy=%s" % (an, tm.facts.has_impl("std::clone::Clone", adt), tm.facts.has_impl("std::marker::Copy", adt)))
            sites = aggregate_sites(tm, adt)
            ck.ob("R4.3", "%s/single-construction-site" % an, tm.target, len(sites) == 1,
                  "%d construction site(s): %s" % (len(sites), ", ".join(short(s[0]) for s in sites)))
            for fn, st in sites:
                vs = tm.try_variants(fn)
                if vs is None:
                    ck.ob("R4.1", "%s/%s/analysable" % (an, short(fn)), tm.target, False, "constructor %s cannot be analysed: %s" % (fn, tm._errors.get(fn)))
                    continue
                for f in tm.machines[(fn, None)].entered:
                    ck.analysed_fn(tm.target, f)
                n = 0
                for v in vs:
                    if v.status != "returned":
                        ck.ob("R4.2", "%s/%s/constructor-diverges" % (an, short(fn)), tm.target, False,
                              "constructor path diverges (%s): a poisoned or failing lock must not make the constructor panic" % v.note)
                        continue
                    vals = []
                    find_adt_values(v.ret, adt, vals)
                    for val in vals:
                        n += 1
                        gv = val.fields[fidx]
                        fty = a["variants"][0]["fields"][fidx]["ty"]
                        if holder_optional(tm, adt):
                            held = not (isinstance(gv, Adt) and gv.path == "std::option::Option" and gv.variant == 0) and not isinstance(gv, (Opaque,)) or \
                                (isinstance(gv, Adt) and gv.vname == "Some")
                            held = isinstance(gv, Adt) and gv.vname == "Some"
                            ck.ob("R4.1", "%s/guard-held-unconditionally" % an, tm.target, held,
                                  "%s.%s has type %s: the struct exists whether or not it owns the guard; on this path the field is %s — "
                                  "a holder without the guard excludes nobody" % (an, fname, fty["s"], "Some(guard)" if held else "not provably Some(guard)"),
                                  "%s:%d" % (st["span"]["file"], st["span"]["line"]))
                        leaves = guard_leaves(gv)
                        gv = leaves[0] if leaves else gv
                        ge = gv.e if isinstance(gv, (Opaque, Int)) else None
                        lv, strs, callees = deps(v, ge) if ge is not None else (set(), set(), set())
                        locks = [c for c in callees if is_std_lock(c)]
                        trys = [c for c in callees if "try_lock" in c]
                        st_ = set()

                        def walk(e, acc, d=0):
                            if isinstance(e, E) and d < 60:
                                if e.op == "static":
                                    acc.add(e.args[0])
                                for x in e.args:
                                    walk(x, acc, d + 1)
                        # statics the lock call's argument derives from
                        for ev in v.trace:
                            if is_std_lock(ev.name):
                                for aarg in ev.args:
                                    if isinstance(aarg, (Opaque, Int)):
                                        walk(aarg.e, st_)
                        ok = bool(locks) and not trys and len(st_) == 1
                        statics |= st_
                        ck.ob("R4.1", "%s/guard-from-the-lock" % an, tm.target, ok,
                              "%s.%s = %s; derives from %s on static %s" % (an, fname, fmt(ge, 5) if ge is not None else gv, locks or "NO lock() call", sorted(st_)),
                              "%s:%d" % (st["span"]["file"], st["span"]["line"]))
                ck.floor("R4.1", "%s/constructions-evaluated" % an, n, 1, tm.target)
        ck.ob("R4.1", "single-static", tm.target, len(statics) == 1, "all guard-holding structs lock the same static: %s" % sorted(statics))
        # ---------------- no try_lock / no other mutex
        tl = scans.try_lock_sites(tm.facts)
        for fn, name, t in tl:
            ck.ob("R4.1", "try_lock/%s" % short(fn), tm.target, False, "%s calls %s" % (fn, name))
        for b in tm.facts.data["bodies"]:
            for name, foreign, local, t in tm.facts.callees_of(b):
                if name.startswith("std::sync::") and name.endswith("Mutex::<T>::new"):
                    if not b["def_kind"].startswith("Static") and not (b["def_kind"] in ("AssocFn", "Fn") and tm.facts.fns.get(b["path"], {}).get("impl_of")):
                        ck.ob("R4.1", "fresh-mutex/%s" % short(b["path"]), tm.target, False, "%s creates a mutex at run time" % b["path"])
        ck.ob("R4.1", "no-try_lock", tm.target, not tl, "%d try_lock call sites" % len(tl))
        # ---------------- R4.2 the wrapper
        wrappers = []
        for b in tm.facts.fn_bodies():
            for name, foreign, local, t in tm.facts.callees_of(b):
                if is_std_lock(name):
                    wrappers.append(b["path"])
        ck.floor("R4.2", "lock-call-sites", len(wrappers), 1, tm.target)
        lock_wrapper_cannot_panic(ck, tm, "R4.2")
        for wfn in sorted(set(wrappers)):
            vs = tm.try_variants(wfn)
            if vs is None:
                ck.ob("R4.2", "%s/analysable" % short(wfn), tm.target, False, "cannot analyse %s" % wfn)
                continue
            for v in vs:
                if v.status != "returned":
                    ck.ob("R4.2", "%s/diverges" % short(wfn), tm.target, False, "lock wrapper path diverges (%s): poison must be swallowed" % v.note)
                    continue
                r = v.ret
                re_ = r.e if isinstance(r, (Opaque, Int)) else None
                lockev = [e for e in v.trace if is_std_lock(e.name)]
                form = "?"
                ok = False
                if re_ is not None and len(lockev) == 1:
                    lr = lockev[0].ret.e
                    if re_.op == "field" and re_.args[0].op == "downcast" and re_.args[0].args[0] == lr and re_.args[0].args[1] == 0:
                        ok, form = True, "Ok payload of the lock() call"
                    elif re_.op == "ret" and re_.args[0].endswith("PoisonError::<T>::into_inner"):
                        ev = find_event(v, re_.args[0], re_.args[1])
                        a0 = ev.args[0].e if ev and isinstance(ev.args[0], (Opaque, Int)) else None
                        if a0 is not None and a0.op == "field" and a0.args[0].op == "downcast" and a0.args[0].args[0] == lr and a0.args[0].args[1] == 1:
                            ok, form = True, "into_inner() of the PoisonError of the same lock() call"
                    elif re_.op == "ret" and re_.args[0].endswith("Result::<T, E>::unwrap_or_else"):
                        ev = find_event(v, re_.args[0], re_.args[1])
                        a0 = ev.args[0].e if ev and isinstance(ev.args[0], (Opaque, Int)) else None
                        h = ev.args[1] if ev and len(ev.args) > 1 else None
                        handler_ok = False
                        if isinstance(h, FnVal) and h.path.endswith("PoisonError::<T>::into_inner"):
                            handler_ok = True
                        elif h is not None and h.__class__.__name__ == "ClosureV":
                            cv = tm.try_variants(h.path) or []
                            handler_ok = len(cv) == 1 and cv[0].status == "returned" and isinstance(cv[0].ret, Opaque) and \
                                cv[0].ret.e.op == "ret" and cv[0].ret.e.args[0].endswith("PoisonError::<T>::into_inner")
                        if a0 is not None and a0 == lr and handler_ok:
                            ok, form = True, "lock().unwrap_or_else(PoisonError::into_inner): Ok payload, or the guard inside the PoisonError of the same call"
                    # lock is on self's mutex
                ck.ob("R4.2", "%s/returns-own-guard" % short(wfn), tm.target, ok,
                      "returns %s (%s)" % (fmt(re_, 5) if re_ is not None else r, form), where(lockev[0]) if lockev else None)
        # ---------------- R4.3 Default -> locking constructor
        for adt, fname, fidx, a in holders:
            for p, f in tm.facts.fns.items():
                io = f.get("impl_of")
                if io and io.get("trait") == "std::default::Default" and io["self_ty"].get("path") == adt:
                    vs = tm.try_variants(p)
                    ok = bool(vs) and all(any(is_std_lock(e.name) for e in v.trace) for v in vs if v.status == "returned")
                    ck.ob("R4.3", "%s/default-locks" % short(adt), tm.target, ok, "Default::default for %s takes the lock on every path: %s" % (short(adt), ok))
        # ---------------- R4.4 capability discipline
        g = guard_roles(tm)
        inj, cfield, cidx, ckind = injector_adt(tm, g.adt) if g.adt else (None, None, None, None)
        roots = tm.install_roots()
        ck.floor("R4.4", "public-install-roots", len(roots), 6, tm.target)
        builders = set()
        for p in roots:
            f = tm.facts.fns[p]
            from . import roles
            recv = f["inputs"][0] if f["inputs"] else None
            ok = False
            why = "no receiver"
            if recv is not None:
                ok = roles.holds_mut_ref_to(tm.facts, recv, inj)
                why = "receiver %s %s `&mut %s`" % (recv["s"], "(transitively) holds" if ok else "does NOT hold", short(inj))
                if ok and recv["k"] == "adt" and recv["path"] in tm.facts.adts:
                    builders.add(recv["path"])
            ck.ob("R4.4", "%s/holds-mut-injector" % short(p), tm.target, ok, "%s: %s" % (short(p), why))
        for badt in sorted(builders):
            for fn, st in aggregate_sites(tm, badt):
                f = tm.facts.fns.get(fn)
                recv = f["inputs"][0] if f and f["inputs"] else None
                ok = bool(f) and any(roles.holds_mut_ref_to(tm.facts, x, inj) for x in f["inputs"])
                ck.ob("R4.4", "%s/built-only-under-mut-injector" % short(badt), tm.target, ok,
                      "%s is constructed in %s whose receiver is %s" % (short(badt), short(fn), recv["s"] if recv else None),
                      "%s:%d" % (st["span"]["file"], st["span"]["line"]))
            vis = [fld["vis"] for fld in tm.facts.adts[badt]["variants"][0]["fields"]]
            ck.ob("R4.4", "%s/fields-private" % short(badt), tm.target, all(v != "Public" for v in vis), "field visibilities: %s" % vis)
        # every public function reaching a raw write or a release is an install root (i.e. goes through a builder)
        for p in tm.public_fns():
            if p in roots:
                continue
            vs = tm.try_variants(p)
            if vs is None:
                continue
            bad = any(e.kind in ("raw_write", "raw_write_other", "raw_store") or (e.kind == "ffi" and e.name in FREE_FFI + ALLOC_FFI + PROTECT_FFI) for v in vs for e in v.trace)
            if bad:
                ck.ob("R4.4", "%s/public-path-without-capability" % short(p), tm.target, False, "public function %s reaches a code write or mapping call without holding the injector" % p)
        # ---------------- R4.5 restore before release, R4.6 field untouched
        if inj:
            a = tm.facts.adts[inj]
            names = [f["name"] for f in a["variants"][0]["fields"]]
            lockf = [h for h in holders if h[0] == inj]
            if lockf:
                lidx = lockf[0][2]
                order, why, wh, dfn = teardown_order(tm, inj, cfield, g.adt)
                empties = order == "lifo" and dfn is not None
                ok = cidx < lidx or empties
                # R4.7 ... and "gone" means restored: the guard's destructor restores on every returning path (shared with C02 R2.2)
                if g.drop_fn:
                    destructor_always_restores(ck, tm, g, "R4.7")
                ck.ob("R4.5", "restore-before-release", tm.target, ok,
                      "fields of %s in declaration (= drop) order: %s; guards container `%s` (#%d) vs lock `%s` (#%d); explicit Drop empties the container first: %s" % (
                          short(inj), names, cfield, cidx, lockf[0][1], lidx, empties))
        n_touch = 0
        for adt, fname, fidx, a in holders:
            for fn in scans.field_mentions(tm.facts, adt, fidx):
                n_touch += 1
                ck.ob("R4.6", "%s/lock-field-touched/%s" % (short(adt), short(fn)), tm.target, False,
                      "%s mentions %s.%s outside its construction: the guard could be moved out, replaced or dropped early" % (fn, short(adt), fname))
        ck.ob("R4.6", "lock-field-untouched", tm.target, n_touch == 0, "%d mention(s) of a MutexGuard field outside constructions" % n_touch)
        # ---------------- R4.8 "observes exactly its own fakes": what the previous holder did to a shared call counter is not charged to the next
        # one - every installation that takes a verifier resets the counter before its first effect (C07 R7.1, library part)
        from .c07 import install_resets_counter
        install_resets_counter(ck, tm, "R4.8")
        # ---------------- R4.9 "when the holder lets go ... by unwinding, a waiting thread gets its turn": the unwinding of a refused installation
        # completes - no restore guard is alive while its own entry write can still be refused (C05 R5.8)
        from .c05 import guard_only_after_entry_write
        if g.adt:
            guard_only_after_entry_write(ck, tm, g, patches.roots_and_roles(tm), "R4.9")
    scans.control(ck, ck.ws, "R4.1", "try_lock-call", scans.try_lock_sites)

    def stolen(f):
        out = []
        for p_, fname_, i, a in lock_holders(f):
            out += scans.field_mentions(f, p_, i)
        return out
    scans.control(ck, ck.ws, "R4.6", "guard-field-mentioned-outside-construction", stolen)
