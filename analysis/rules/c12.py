"""C12 — no trampoline mapping is leaked or freed twice over any number of cycles."""
from .common import *
from .codewrite import *
from .lifecycle import *

PER_TARGET = True      # every rule below looks at one target configuration at a time (check.py may fork one worker per target)
DECIDED = ("ownership pairing: R12.1 the guard built by every install root records exactly (result, requested size) of the allocation made by "
           "the same installation (or (null, 0) where nothing is mapped); R12.2 the guard's destructor releases (self.ptr, self.size) exactly "
           "once on every normal path with a non-null pointer and never with a null one, the guard type is neither Clone nor Copy and is "
           "constructed at one site only; R12.3 the release primitive has no call site outside the allocator's reject edge and the "
           "destructor; R12.7 every protection change before an entry or restoring write reaches no further than the pages written; R12.6 the guard saved as many bytes as it restores, at the address written (C03 R3.8: otherwise its destructor panics before the release); R12.5 every mapping the placement search obtains is returned or released before the next probe (C11 R11.1/R11.2); R12.4 on every normal path of an install root the allocation result reaches the stored guard (with C02 R2.3/R2.4: "
           "every guard is dropped exactly once when the injector goes away)")
NOT_DECIDED = "a mapping left behind by an installation that fails after allocating (outside the property's 'successful installation')"


def run(ck, models, tier):
    ck.decided, ck.not_decided = DECIDED, NOT_DECIDED
    ck.trusted += ["rustc MIR", "std models", "munmap/VirtualFree release exactly the named mapping"]
    for tm in models:
        g = guard_roles(tm)
        ck.ob("R12.2", "guard-roles", tm.target, g.adt is not None and (tm.arch == "arm" or (g.jit_ptr and (g.jit_size or tm.os == "windows"))),
              "guard %s releases (self.%s, self.%s)" % (g.adt, g.jit_ptr, g.jit_size))
        if g.adt is None:
            continue
        roots = patches.roots_and_roles(tm)
        ck.floor("R12.1", "public-install-roots", len(roots), 6, tm.target)
        # names of the pointer/size fields on targets where the destructor shows them; on ARM take them from the ADT by elimination
        adt = tm.facts.adts[g.adt]
        fields = [f["name"] for f in adt["variants"][0]["fields"]]
        for p, func, repl, boolval in roots:
            rn = short(p)
            n = 0
            for v in tm.variants(p):
                al = alloc_events(v)
                if v.status != "returned":
                    if al:
                        ck.info("%s: a failing path (%s) leaves the mapping made at %s behind (not claimed)" % (rn, v.note, where(al[-1])))
                    continue
                pg = pushed_guards(v, g.adt)
                # a path on which the allocation result is null is infeasible: the allocator returns only successful mappings
                # (C11 R11.1) and neither mmap nor VirtualAlloc yields address 0
                if al and any(c.op == "eq" and isinstance(al[-1].ret, Int) and al[-1].ret.e in c.args and any(
                        isinstance(x, E) and x.is_const() and x.val == 0 for x in c.args) for c in guards.true_conds(v.decisions)):
                    ck.info("%s: path assuming a null allocation result skipped (infeasible under C11 R11.1)" % rn)
                    continue
                if len(pg) != 1:
                    ck.ob("R12.4", "%s/guard-stored" % rn, tm.target, False, "normal path stores %d guards" % len(pg))
                    continue
                n += 1
                pev, gv, cont = pg[0]
                if tm.arch == "arm" and not g.jit_ptr:
                    rest = [x for x in fields if (x,) not in (g.addr, g.saved, g.len)]
                    vals = [gv.field(x) for x in rest]
                    ok = not al and all(isinstance(x, Int) and x.is_const() and x.cval() == 0 for x in vals)
                    ck.ob("R12.1", "%s/guard-owns-mapping" % rn, tm.target, ok,
                          "no mapping is made and the guard records %s = %s" % (rest, vals), where(pev))
                    continue
                jp = guard_field(gv, None, g.jit_ptr)
                js = guard_field(gv, None, g.jit_size) if g.jit_size else None
                if not al:
                    ok = isinstance(jp, Int) and jp.is_const() and jp.cval() == 0
                    ck.ob("R12.1", "%s/guard-owns-mapping" % rn, tm.target, ok, "no allocation on this path; guard pointer = %s" % (jp,), where(pev))
                    continue
                a = al[-1]
                size = a.args[1] if len(a.args) > 1 else None
                ok_p = isinstance(jp, Int) and isinstance(a.ret, Int) and same_expr(jp.e, a.ret.e)
                ok_s = True
                if g.jit_size:
                    ok_s = isinstance(js, Int) and isinstance(size, Int) and same_expr(js.e, size.e)
                    if not ok_s and isinstance(js, Int) and js.e.op == "field" and js.e.args[0].op == "ret" and js.e.args[0].args[0] == a.name:
                        # the allocator hands back {pointer, length}: the guard keeps that length - it is the mapped length if, on every
                        # returning path of the allocator, that field is the length given to the mapping call
                        fname = js.e.args[1]
                        try:
                            avs = [x for x in allocator_variants(tm, a.name) if x.status == "returned"]
                        except Exception:
                            avs = []
                        def fld(val):
                            if isinstance(val, Adt) and val.fnames and fname in val.fnames:
                                return val.fields[val.fnames.index(fname)]
                            return None
                        def maplen(x):
                            mm = [e for e in x.trace if e.kind == "ffi" and e.name in ALLOC_FFI]
                            return mm[-1].args[1] if mm and len(mm[-1].args) > 1 else None
                        ok_s = bool(avs) and all(isinstance(fld(x.ret), Int) and isinstance(maplen(x), Int) and same_expr(fld(x.ret).e, maplen(x).e) for x in avs)
                ck.ob("R12.1", "%s/guard-owns-mapping" % rn, tm.target, ok_p and ok_s and len(al) == 1,
                      "allocation %s(size=%s) -> %s; guard.%s = %s, guard.%s = %s; allocations on this path: %d" % (
                          short(a.name), fmt(size.e) if isinstance(size, Int) else size, fmt(a.ret.e, 3) if isinstance(a.ret, Int) else a.ret,
                          g.jit_ptr, fmt(jp.e, 3) if isinstance(jp, Int) else jp, g.jit_size, fmt(js.e) if isinstance(js, Int) else js, len(al)), where(pev))
            ck.floor("R12.4", "%s/normal-variants" % rn, n, 1, tm.target)
        # ---------------- R12.2 destructor
        nrel = 0
        for v in tm.variants(g.drop_fn):
            if v.status != "returned":
                continue
            frees = [e for e in v.trace if e.kind == "ffi" and e.name in FREE_FFI]
            # null-ness decision
            nullv = None
            for d in v.decisions:
                c = d[0]
                if c.op in ("eq", "ne") and any(self_field(x) == g.jit_ptr for x in c.args if isinstance(x, E)) and any(isinstance(x, E) and x.is_const() and x.val == 0 for x in c.args):
                    isnull = (d[1] == 1) if c.op == "eq" else (d[1] == 0)
                    nullv = isnull
                elif c.op == "discr" and g.jit_ptr:
                    sp_ = self_field(c.args[0])
                    if sp_ and tuple(g.jit_ptr[:len(sp_)]) == tuple(sp_):
                        # the mapping lives in an Option: variant 0 (None) = nothing mapped
                        nullv = d[1] == 0 or (isinstance(d[1], tuple) and d[1][0] == "otherwise" and 1 in d[1][1])
            if tm.arch == "arm" and not g.jit_ptr:
                ck.ob("R12.2", "drop/no-release-on-arm", tm.target, len(frees) <= 1, "destructor releases %d mapping(s)" % len(frees))
                continue
            if nullv is None:
                ck.ob("R12.2", "drop/null-test", tm.target, False, "destructor path has no test of self.%s against null [%s]" % (g.jit_ptr, fmt_dec(v)))
                continue
            if nullv:
                ck.ob("R12.2", "drop/null-pointer-not-released", tm.target, len(frees) == 0, "null pointer path releases %d mapping(s)" % len(frees))
            else:
                nrel += 1
                ok = len(frees) == 1
                why = "%d release call(s)" % len(frees)
                if ok:
                    f = frees[0]
                    okp = self_field(f.args[0].e) == g.jit_ptr
                    if tm.os == "windows":
                        oks = f.args[1].is_const() and f.args[1].cval() == 0 and f.args[2].is_const() and f.args[2].cval() == 0x8000
                    else:
                        oks = self_field(f.args[1].e) == g.jit_size
                    ok = okp and oks
                    why = "%s(%s, %s)" % (short(f.name), fmt(f.args[0].e, 3), fmt(f.args[1].e, 3))
                ck.ob("R12.2", "drop/released-exactly-once", tm.target, ok, "non-null path: %s; expected one release of (self.%s, self.%s)" % (why, g.jit_ptr, g.jit_size),
                      where(frees[0]) if frees else None)
        if tm.arch != "arm":
            ck.floor("R12.2", "drop-release-paths", nrel, 1, tm.target)
            # R12.4 the release comes after the restore
            k4 = restore_before_release(ck, tm, g, "R12.4")
            ck.floor("R12.4", "drop-paths-with-restore-and-release", k4, 1, tm.target)
            # R12.7 the protection changes made on the way reach no further than the pages written: a wider one is refused when the next page
            # is unmapped (install panics after the trampoline was mapped / destructor panics before the release) or makes a foreign page executable
            k7 = patches.protection_tightness(ck, "R12.7", tm, g)
            if tm.os != "macos":        # macOS changes protections on its private alias of the page, not on the live page
                ck.floor("R12.7", "protection-changes-checked-for-tightness", k7, 1, tm.target)
            # R12.6 the destructor gets as far as the release: what it restores is what the installation wrote and saved (C03 R3.8) - a
            # guard that saved fewer bytes than it will slice out panics in its destructor before the mapping is released
            restore_lands_on_entry(ck, tm, g, "R12.6", patches.roots_and_roles(tm))
            # R12.5 "the executable anonymous mappings are the same after any number of cycles": every mapping the placement search obtains is
            # either the one it returns or released before the next probe (C11 R11.1/R11.2) - a probe that is neither stays mapped for ever
            from .c11 import allocator_obligations
            allocator_obligations(ck, tm, lambda r: "R12.5" if r in ("R11.1", "R11.2") else None)
        # not Clone / Copy, single construction site, fields never assigned
        ck.ob("R12.2", "guard-not-clone", tm.target, not tm.facts.has_impl("std::clone::Clone", g.adt) and not tm.facts.has_impl("std::marker::Copy", g.adt),
              "%s implements Clone: %s, Copy: %s" % (short(g.adt), tm.facts.has_impl("std::clone::Clone", g.adt), tm.facts.has_impl("std::marker::Copy", g.adt)))
        nagg = 0
        nassign = 0
        for b in tm.facts.fn_bodies():
            for blk in b["blocks"]:
                for st in blk["stmts"]:
                    if st["k"] != "assign":
                        continue
                    rv = st["rv"]
                    if rv["k"] == "aggregate" and rv["kind"]["k"] == "adt" and rv["kind"]["path"] == g.adt:
                        nagg += 1
                    pl = st["place"]
                    ty = b["locals"][pl["l"]]["ty"]
                    for pe in pl["p"]:
                        if pe["k"] == "deref":
                            ty = ty.get("inner") if ty else None
                        elif pe["k"] == "field":
                            if ty and ty.get("k") == "adt" and ty.get("path") == g.adt:
                                nassign += 1
                            ty = pe["ty"]
                        else:
                            ty = None
        ck.ob("R12.2", "guard-single-construction", tm.target, nagg == 1 and nassign == 0,
              "%d aggregate construction site(s) of %s and %d direct field assignment(s) in the crate" % (nagg, short(g.adt), nassign))
        release_rules(ck, tm, g, "R12.3")
        for key, m in list(tm.machines.items()):
            for f in m.entered:
                ck.analysed_fn(tm.target, f)
