"""C09 — type-checked installation refuses every structurally different signature."""
from .common import *
from .macros import *
from . import macros as mac
from . import patches

PER_TARGET = True      # every rule below looks at one target configuration at a time (check.py may fork one worker per target)
NEEDS_WS = True
DECIDED = ("R9.1 in every checked (safe) public install root the installation is on the equal edge of a whole-string equality (str eq/ne) "
           "between the replacement's recorded signature and the signature stored by when_called*, the other edge diverges, and the test "
           "precedes every allocation and write; affix/length/substring tests are rejected; R9.2 in every checked macro arm (func!, closure!, "
           "fake!, async_return!) the recorded string is type_name of a *fn-pointer type* assembled from the arm's tokens (unsafety, ABI, "
           "parameter and return types as declared) and the recorded pointer is that same value; R9.3 the unchecked macros record the empty "
           "string and when_called_unchecked expects the empty string, when_called* otherwise store the FuncPtr's own recorded signature; "
           "R9.4 null is refused at construction (the rule of C05 R5.3, repeated here); R9.5 async_func! and async_return! record the same type constructor "
           "`fn() -> Poll<T>` over the same T, and a future of another output type is rejected by rustc (compile-fail witness E0271 with a "
           "compiling twin); R9.6 over a family of 14 fn-pointer types differing in arity, one parameter type, return type, reference/pointer "
           "mutability, unsafety and ABI, the strings rustc's own type_name implementation renders (taken from the compiler at check time, not by "
           "running code) are pairwise different, and identical types written for different functions/closures render identically"
           " A checked call that returns normally without any effect must also have passed the signature equality on its equal edge (a replacement of a different type is refused with a panic, not ignored).")
NOT_DECIDED = ("injectivity of std::any::type_name outside the checked family (it is decided on the family of R9.6 with the compiler's own renderer; "
               "other type pairs remain an assumption)")


def run(ck, models, tier, ws):
    ck.decided, ck.not_decided = DECIDED, NOT_DECIDED
    ck.trusted += ["rustc type checking and MIR", "std::any::type_name is injective on structurally different fn-pointer types", "std models"]
    for tm in models:
        run_one(ck, tm, tier, ws)


def run_one(ck, tm, tier, ws):
    hm = mac.get(ws, tm.facts, tier)
    # ---------------- R9.1 library gates
    n_checked = 0
    for p, func, repl, boolval in patches.roots_and_roles(tm):
        f = tm.facts.fns[p]
        if f["unsafe"] or repl is None:
            continue
        rn = short(p)
        vs = tm.variants(p)
        for fn in tm.machines[(p, None)].entered:
            ck.analysed_fn(tm.target, fn)
        body = tm.facts.body(p)
        args = tm.root_args(tm.machines[(p, None)], body)
        strs_ = []

        def collect(v, who):
            if isinstance(v, Opaque) and v.ty and v.ty.get("k") == "ref" and v.ty["inner"]["k"] == "str":
                strs_.append((who, v.e))
            elif isinstance(v, Adt):
                for x in v.fields:
                    collect(x, who)
            elif isinstance(v, Tup):
                for x in v.elems:
                    collect(x, who)
        for i, a in enumerate(args):
            collect(a, i)
        expected = [e for w, e in strs_ if w == 0]
        recorded = [e for w, e in strs_ if w != 0]
        if len(expected) != 1 or len(recorded) != 1:
            ck.ob("R9.1", "%s/signatures-identified" % rn, tm.target, False, "builder carries %d string(s), replacement carries %d" % (len(expected), len(recorded)))
            continue
        n_checked += 1
        exp, rec = expected[0], recorded[0]
        for v in vs:
            eff = [e for e in v.trace if is_effect(e)]
            if not eff:
                if v.status == "returned":
                    # a checked call that comes back without having done anything has to have passed the gate too: a replacement of a
                    # different type is refused with a panic, not silently ignored
                    gated = any(c_[0].op in ("str_ne", "str_eq") and {c_[0].args[0], c_[0].args[1]} == {exp, rec} and
                                ((c_[0].op == "str_ne" and c_[1] == 0) or (c_[0].op == "str_eq" and c_[1] == 1)) for c_ in v.decisions)
                    ck.ob("R9.1", "%s/%s" % (rn, "effect-free-return-passed-the-gate" if gated else "returns-without-gate"), tm.target, gated,
                          "a path returns normally without any effect and %s the signature equality on its equal edge%s" % (
                              "after" if gated else "WITHOUT", "" if gated else ": a structurally different replacement is accepted silently on this path [%s]" % fmt_dec(v)))
                continue
            first = min(e.idx for e in eff)
            gate = None
            for d_ in v.decisions:
                c = d_[0]
                if d_[4] <= first and c.op in ("str_ne", "str_eq") and {c.args[0], c.args[1]} == {exp, rec}:
                    equal = (c.op == "str_ne" and d_[1] == 0) or (c.op == "str_eq" and d_[1] == 1)
                    gate = (c, equal)
            other = [d_[0] for d_ in v.decisions if d_[4] <= first and d_[0].op.startswith("str_") and d_[0].op not in ("str_ne", "str_eq")]
            ok = gate is not None and gate[1] and not other
            ck.ob("R9.1", "%s/%s" % (rn, "install-on-equal-edge-of-whole-string-equality" if ok else "gate-missing-or-not-equality"), tm.target, ok,
                  "path with effects: gate = %s, on the equal edge: %s%s" % (
                      fmt(gate[0], 5) if gate else None, gate[1] if gate else None,
                      ("; non-equality string tests in front of the install: %s" % [fmt(x, 4) for x in other]) if other else ""), where(eff[0]))
        ref = [v for v in vs if v.status == "diverged" and not any(is_effect(e) for e in v.trace)]
        ck.ob("R9.1", "%s/mismatch-diverges-before-anything-is-modified" % rn, tm.target, bool(ref), "%d refusing path(s) without effects" % len(ref))
    ck.floor("R9.1", "checked-roots-with-a-replacement", n_checked, 3)
    # ---------------- R9.2b the FuncPtr constructor stores what it is given
    for adtp, a in tm.facts.adts.items():
        if a["vis"] != "Public" or len(a["variants"]) != 1:
            continue
        fl = a["variants"][0]["fields"]
        if not any(f_["ty"].get("k") == "ref" and f_["ty"]["inner"].get("k") == "str" for f_ in fl) or not any("FuncPtrInternal" in f_["ty"].get("s", "") for f_ in fl):
            continue
        for b in tm.facts.fn_bodies():
            fnf = tm.facts.fns.get(b["path"]) or {}
            if fnf.get("output", {}).get("path") != adtp or not fnf.get("reachable"):
                continue
            vs_ = tm.try_variants(b["path"]) or []
            body_ = tm.facts.body(b["path"])
            args_ = tm.root_args(tm.machines[(b["path"], None)], body_) if (b["path"], None) in tm.machines else []
            for v in vs_:
                if v.status != "returned" or not isinstance(v.ret, Adt):
                    continue
                sigs_ = [x for x in v.ret.fields if isinstance(x, Opaque) and x.ty and x.ty.get("k") == "ref"]
                ptrs_ = find_ptr_leaves(v.ret)
                in_sig = [x for x in args_ if isinstance(x, Opaque) and x.ty and x.ty.get("k") == "ref" and x.ty["inner"].get("k") == "str"]
                in_ptr = [x for x in args_ if isinstance(x, Int)]
                ok = len(sigs_) == 1 and len(in_sig) == 1 and sigs_[0].e == in_sig[0].e and len(ptrs_) == 1 and len(in_ptr) == 1 and \
                    isinstance(ptrs_[0], Int) and same_expr(ptrs_[0].e, in_ptr[0].e)
                ck.ob("R9.2", "%s/constructor-stores-its-arguments" % short(b["path"]), tm.target, ok,
                      "%s returns {pointer: %s, signature: %s} for arguments (%s, %s)" % (
                          short(b["path"]), fmt(ptrs_[0].e, 3) if ptrs_ and isinstance(ptrs_[0], Int) else ptrs_, fmt(sigs_[0].e, 3) if sigs_ else None,
                          fmt(in_ptr[0].e, 3) if in_ptr else None, fmt(in_sig[0].e, 3) if in_sig else None))
    # ---------------- R9.3 when_called* store the right expectation
    for p in sorted(tm.public_fns()):
        f = tm.facts.fns[p]
        out = f["output"]
        if not (out["k"] == "adt" and out["path"] in tm.facts.adts and "Builder" in out["path"]):
            continue
        vs = tm.try_variants(p) or []
        for v in vs:
            if v.status != "returned" or not isinstance(v.ret, Adt):
                continue
            sig = [x for x in v.ret.fields if isinstance(x, Opaque) and x.ty and x.ty.get("k") == "ref" and x.ty["inner"]["k"] == "str"]
            if len(sig) != 1:
                continue
            e = sig[0].e
            if f["unsafe"]:
                ok = e.op == "str" and e.args[0] == ""
                ck.ob("R9.3", "%s/unchecked-expects-empty" % short(p), tm.target, ok, "unchecked builder expects %s" % fmt(e, 4))
            else:
                lv, strs, callees = deps(v, e)
                ok = e.op != "str" and any(l.op in ("leaf", "field") for l in lv)
                ck.ob("R9.3", "%s/expects-the-recorded-signature" % short(p), tm.target, ok, "checked builder expects %s (the caller-supplied recorded signature)" % fmt(e, 4))
    # ---------------- R9.2 what the macros record
    n = 0
    for mod, d in hm.modules():
        macro = d["macro"]
        if macro not in ("func", "closure", "fake", "async_return", "func_unchecked", "closure_unchecked", "async_return_unchecked"):
            continue
        if not hm.accepted(mod):
            if macro != "fake":
                ck.ob("R9.2", "%s-arm%02d/compiles" % (macro, d["arm"].index), tm.target, False,
                      "%s! arm %d does not compile: %s" % (macro, d["arm"].index, hm.h.verdicts[mod][0]["message"]))
            continue
        if d["shape"]["nargs"] != 2:
            continue
        arm = d["arm"]
        key = "%s-arm%02d" % (macro, arm.index)
        rec = None
        for v in hm.variants(mod + "::instantiate"):
            for e in v.trace:
                if e.kind == "ext" and e.name.endswith("FuncPtr::new"):
                    rec = e
        if rec is None:
            ck.ob("R9.2", "%s/records-a-signature" % key, tm.target, False, "no FuncPtr::new call in the expansion")
            continue
        ck.analysed_fn("harness:" + tm.target, mod + "::instantiate")
        n += 1
        tstr, tkind, tjson = type_of_name(rec.args[1])
        if macro.endswith("_unchecked"):
            ck.ob("R9.3", "%s/records-empty-string" % key, tm.target, tkind == "literal" and tstr == "", "unchecked macro records %r" % (tstr,))
            continue
        o = arm.options()
        ok = tkind == "fnptr"
        why = "recorded signature = type_name of `%s` (%s)" % (tstr, tkind)
        if ok and macro in ("func", "fake"):
            txt = arm.literal_text()
            want_unsafe = "unsafe" in txt
            want_abi = "C" if 'extern "C"' in txt else ("system" if 'extern "system"' in txt else "Rust")
            mv = dict(arm.metavars())
            if "fn_type" not in mv:
                ok = tjson["unsafe"] == want_unsafe and tjson["abi"].strip('"') == want_abi
                want_out = "i64" if "ret" in mv else "()"
                ins = tjson["inputs"]
                ok = ok and tjson["output"]["s"] == want_out and len(ins) == 2 and ins[0]["k"] == "ref" and ins[0]["mut"] and \
                    ins[0]["inner"]["s"] == "i32" and ins[1]["s"] == "i32"
                why += "; declared: unsafe=%s abi=%s -> %s" % (want_unsafe, want_abi, want_out)
        ptr = rec.args[0]
        okp = isinstance(ptr, FnVal)
        # the recorded pointer is the function the user named (the harness knows what it passed)
        if okp and macro == "func":
            okp = ptr.path.startswith("m::tgt_")
        elif okp and macro == "closure":
            okp = "closure" in ptr.path
        elif okp and macro == "fake":
            okp = ptr.path == mod + "::instantiate::fake"
        elif okp and macro == "async_return":
            okp = ptr.path == mod + "::instantiate::generated_poll_fn"
        ck.ob("R9.2", "%s/records-declared-fn-pointer-type" % key, tm.target, ok and okp, why + "; pointer recorded: %r" % (ptr,))
    ck.floor("R9.2", "macro-arms-recording-a-signature", n, 70)
    # ---------------- R9.6 the family of the quantifier: rustc's own rendering distinguishes every pair of different types
    from .. import harness as hmod
    if hm.accepted("fam_types"):
        names = {}
        for name, d_, inv in hmod.FAMILY:
            fn = "fam_types::rec_%s" % name
            if hm.facts.body(fn) is None:
                continue
            for v in hm.variants(fn):
                for e in v.trace:
                    if e.kind == "ext" and e.name.endswith("FuncPtr::new"):
                        names[name] = mac.rendered_type_name(e.args[1])
        ck.floor("R9.6", "family-members-recorded", len([n for n in names.values() if n]), len(hmod.FAMILY))
        distinct = [n for n in names if not n.startswith("same_")]
        clashes = []
        for i, a in enumerate(distinct):
            for b in distinct[i + 1:]:
                if names[a] is None or names[b] is None or names[a] == names[b]:
                    clashes.append((a, b, names[a]))
        ck.ob("R9.6", "family/structurally-different-types-render-differently", tm.target, not clashes,
              "%d function-pointer types differing in arity, one parameter type, return type, reference/pointer mutability, unsafety and ABI: "
              "%d pairs, %d rendered identically by rustc's type_name%s" % (
                  len(distinct), len(distinct) * (len(distinct) - 1) // 2, len(clashes), (": %s" % clashes[:3]) if clashes else ""))
        same = [names.get(n) for n in ("base", "same_fn", "same_closure")]
        ck.ob("R9.6", "family/identically-written-types-render-identically", tm.target, len(set(same)) == 1 and same[0] is not None,
              "the same type written for a different function and for a closure renders as %s" % sorted(set(map(str, same))))
    else:
        ck.ob("R9.6", "family/compiles", tm.target, False, "the type family module does not compile: %s" % (hm.h.verdicts.get("fam_types") or [{}])[0].get("message"))
    # ---------------- R9.4 a null pointer is refused when the handle is constructed (shared with C05 R5.3)
    from .c05 import null_refused_at_construction
    k4 = null_refused_at_construction(ck, tm, "R9.4")
    ck.floor("R9.4", "handle-construction-sites", k4, 1, tm.target)
    # ---------------- R9.5 async agreement and compile-fail witness
    a_sig = r_sig = None
    for mod, d in hm.modules("async_func"):
        if hm.accepted(mod):
            for v in hm.variants(mod + "::instantiate"):
                for e in v.trace:
                    if e.kind == "ext" and e.name.endswith("when_called_async"):
                        tup = e.args[1]
                        if isinstance(tup, Tup):
                            a_sig = type_of_name(tup.elems[1])
                    if e.kind == "ext" and e.name.endswith("FuncPtr::new"):
                        r_sig = type_of_name(e.args[1])
    ok = a_sig is not None and r_sig is not None and a_sig[0] == r_sig[0] and a_sig[1] == "fnptr" and "Poll<u32>" in (a_sig[0] or "")
    ck.ob("R9.5", "async-macros-record-the-same-type", tm.target, ok, "async_func! records %s; async_return! records %s" % (a_sig and a_sig[0], r_sig and r_sig[0]))
    wrong = hm.h.verdicts.get("wit_async_output_wrong")
    twin = hm.h.verdicts.get("wit_async_output_twin")
    okw = bool(wrong) and any(e["code"] == "E0271" for e in wrong) and twin == []
    ck.ob("R9.5", "compile-fail-witness/async-output-type", tm.target, okw,
          "async_func!(fut, String) over a future of output u32: %s; twin differing only in the type: %s" % (
              "rejected with %s" % [e["code"] for e in wrong] if wrong else "ACCEPTED", "accepted" if twin == [] else "rejected: %s" % twin))
