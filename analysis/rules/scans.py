"""Crate-wide who-may-call / who-may-write scans (zero-count rules) and their positive controls."""
import os
from .common import *
from ..facts import Facts, RAW_WRITE_FNS
from .. import extract

FORGET_FNS = ("std::mem::forget", "std::boxed::Box::<T, A>::leak", "std::boxed::Box::<T>::leak", "std::vec::Vec::<T, A>::leak",
              "std::boxed::Box::<T, A>::into_raw", "std::boxed::Box::<T>::into_raw")
ABORTING = ("std::process::abort", "std::process::exit", "std::panic::catch_unwind", "std::intrinsics::abort", "core::intrinsics::abort",
            "std::panic::resume_unwind")


def call_sites(facts, pred, all_bodies=False):
    """(fn path, callee name, terminator) for every call whose resolved callee satisfies pred."""
    out = []
    bodies = facts.data["bodies"] if all_bodies else list(facts.fn_bodies())
    for b in bodies:
        for name, foreign, local, t in facts.callees_of(b):
            if pred(name):
                out.append((b["path"], name, t))
    return out


def forget_sites(facts):
    return call_sites(facts, lambda n: n in FORGET_FNS or n.startswith("std::mem::ManuallyDrop"))


def abort_sites(facts):
    return call_sites(facts, lambda n: n in ABORTING)


def try_lock_sites(facts):
    return call_sites(facts, lambda n: "try_lock" in n, all_bodies=True)


def unwrap_on_lock_result(facts):
    out = []
    for b in facts.fn_bodies():
        for blk in b["blocks"]:
            t = blk["term"]
            if t["k"] == "call" and t["callee"]["k"] == "def":
                c = t["callee"]
                r = c.get("resolved") or c
                name = r["path"]
                if name.startswith("std::result::Result::<T, E>::") and name.split("::")[-1] in ("unwrap", "expect", "unwrap_unchecked"):
                    if any("MutexGuard" in (a.get("ty", {}).get("s", "")) or "PoisonError" in (a.get("ty", {}).get("s", "")) for a in r["args"]):
                        out.append((b["path"], name, t))
    return out


def terminating_unwind_edges(facts):
    out = []
    for b in facts.fn_bodies():
        for blk in b["blocks"]:
            t = blk["term"]
            if not blk["cleanup"] and t["k"] in ("call", "drop", "assert") and t.get("unwind") == "terminate":
                out.append((b["path"], t))
    return out


def field_mentions(facts, adt, fidx, skip_aggregates=True):
    """Bodies in which field #fidx of `adt` is written, moved out, mutably borrowed or dropped (shared borrows and
    copies cannot move, replace or drop the value and are not counted)."""
    out = []
    for b in facts.fn_bodies():
        for blk in b["blocks"]:
            places = []
            for st in blk["stmts"]:
                if st["k"] == "assign":
                    places.append(st["place"])                     # write
                    rv = st["rv"]
                    if rv["k"] in ("ref", "rawptr") and rv.get("mut"):
                        places.append(rv["place"])                 # &mut / &raw mut
                    for key in ("op", "a", "b"):
                        o = rv.get(key)
                        if isinstance(o, dict) and o.get("k") == "move":
                            places.append(o["place"])
                    for o in rv.get("ops", []):
                        if o.get("k") == "move":
                            places.append(o["place"])
            t = blk["term"]
            if t["k"] == "drop":
                places.append(t["place"])
            if t["k"] == "call":
                for o in t["args"]:
                    if o.get("k") == "move":
                        places.append(o["place"])
            for pl in places:
                ty = b["locals"][pl["l"]]["ty"]
                for pe in pl["p"]:
                    if pe["k"] == "deref":
                        ty = ty.get("inner") if ty else None
                    elif pe["k"] == "field":
                        if ty and ty.get("k") == "adt" and ty.get("path") == adt and pe["i"] == fidx:
                            out.append(b["path"])
                        ty = pe["ty"]
                    else:
                        ty = None
    return out


def container_mutations(facts, adt, fidx, exclude_fns=(), allowed_suffixes=("::push", "::push_back", "::push_front", "::insert", "::reserve", "::reserve_exact", "::shrink_to_fit", "::extend", "::extend_one"),
                        allow_local=False):
    """Uses of `&mut <adt>.field#fidx` (the guards container) outside `exclude_fns` that are not a plain append:
    (fn path, callee or 'assignment', line). Removing, reordering or replacing elements of the container outside the
    teardown drops a restore guard out of order."""
    out = []
    for b in facts.fn_bodies():
        if b["path"] in exclude_fns:
            continue

        def is_container(pl):
            ty = b["locals"][pl["l"]]["ty"]
            hit = False
            for pe in pl["p"]:
                if pe["k"] == "deref":
                    ty = ty.get("inner") if ty else None
                elif pe["k"] == "field":
                    hit = bool(ty and ty.get("k") == "adt" and ty.get("path") == adt and pe["i"] == fidx)
                    ty = pe["ty"]
                else:
                    ty = None
                    hit = False
            return hit

        borrowed = {}
        for blk in b["blocks"]:
            for st in blk["stmts"]:
                if st["k"] != "assign":
                    continue
                rv = st["rv"]
                if rv["k"] in ("ref", "rawptr") and rv.get("mut") and is_container(rv["place"]) and not st["place"]["p"]:
                    borrowed[st["place"]["l"]] = st
                elif rv["k"] == "use" and rv["op"].get("k") in ("move", "copy") and not rv["op"]["place"]["p"] and rv["op"]["place"]["l"] in borrowed and not st["place"]["p"]:
                    borrowed[st["place"]["l"]] = st
                elif rv["k"] in ("ref", "rawptr") and rv.get("mut") and rv["place"]["p"] and rv["place"]["p"][-1]["k"] == "deref" and rv["place"]["l"] in borrowed and len(rv["place"]["p"]) == 1:
                    borrowed[st["place"]["l"]] = st          # reborrow &mut *x
                if is_container(st["place"]):
                    out.append((b["path"], "assignment", st["span"]["line"] if st.get("span") else 0))
        for blk in b["blocks"]:
            t = blk["term"]
            if t["k"] == "call":
                for o in t["args"]:
                    if o.get("k") in ("move", "copy") and not o["place"]["p"] and o["place"]["l"] in borrowed:
                        c = t["callee"]
                        name = (c.get("resolved") or c)["path"] if c["k"] == "def" else "<indirect>"
                        local_ok = allow_local and c["k"] == "def" and facts.body(name) is not None
                        if not any(name.endswith(sfx) for sfx in allowed_suffixes) and not local_ok:
                            out.append((b["path"], name, t["span"]["line"] if t.get("span") else 0))
            if t["k"] == "drop" and is_container(t["place"]):
                out.append((b["path"], "drop", 0))
    return out


def static_write_sites(facts):
    """(fn path, kind, name, term/stmt) for every raw write construct in the crate's MIR."""
    out = []
    for b in facts.fn_bodies():
        ltys = b["locals"]
        for name, foreign, local, t in facts.callees_of(b):
            if name in RAW_WRITE_FNS:
                out.append((b["path"], "rawfn", name, t))
            elif name == "<asm>":
                out.append((b["path"], "asm", t["template"], t))
            elif foreign:
                out.append((b["path"], "ffi", name, t))
            elif name == "<indirect>":
                out.append((b["path"], "indirect", name, t))
        for blk in b["blocks"]:
            for st in blk["stmts"]:
                if st["k"] == "assign":
                    pl = st["place"]
                    cur_ty = ltys[pl["l"]]["ty"]
                    for pe in pl["p"]:
                        if pe["k"] == "deref":
                            if cur_ty and cur_ty.get("k") == "ptr":
                                out.append((b["path"], "rawstore", "store through %s" % cur_ty["s"], st))
                                break
                            cur_ty = cur_ty.get("inner") if cur_ty else None
                        elif pe["k"] == "field":
                            cur_ty = pe["ty"]
                        else:
                            cur_ty = cur_ty.get("elem") if cur_ty else None
                elif st["k"] == "copy_nonoverlapping":
                    out.append((b["path"], "rawfn", "intrinsic copy_nonoverlapping", st))
    return out


# ------------------------------------------------------------------------------------------------ positive controls

_controls = {}


def control_facts(ws):
    """Facts of fixtures/controls compiled through the same driver (host target), cached per workspace."""
    key = id(ws)
    if key not in _controls:
        src = os.path.join(extract.VERIF, "fixtures", "controls")
        import shutil
        dst = os.path.join(ws.dir, "controls")
        if not os.path.exists(dst):
            shutil.copytree(src, dst, ignore=shutil.ignore_patterns("target"))
        rc, msgs, err, res = ws._run_driver(dst, ["ipp_controls"], extract.HOST, "controls", cargo_args=("--lib",))
        if rc != 0 or "ipp_controls" not in res:
            raise extract.ExtractError("positive-control crate does not compile: %s" % err[-1500:])
        _controls[key] = Facts.load(res["ipp_controls"][0])
    return _controls[key]


def control(ck, ws, rule, what, finder, minimum=1):
    """The rule's scan must find the planted instance in the control crate; otherwise the check is blind and fails."""
    try:
        cf = control_facts(ws)
        found = finder(cf)
        n = len(found)
    except Exception as e:
        ck.ob(rule, "positive-control/%s" % what, "controls", False, "positive control could not be evaluated: %s" % e)
        return
    ck.ob(rule, "positive-control/%s" % what, "controls", n >= minimum,
          "the scan finds %d planted instance(s) of '%s' in fixtures/controls (needs >= %d)%s" % (
              n, what, minimum, "" if n >= minimum else " — the rule is blind; failing closed"))
