"""C15 — AArch64 patches decode to a branch to exactly the fake, for all addresses."""
from .common import *
from .codewrite import *
from . import patches

PER_TARGET = True      # every rule below looks at one target configuration at a time (check.py may fork one worker per target)
DECIDED = ("for every public install root and every path variant on each AArch64 target: the trampoline bytes decode (independent A64 "
           "table) to MOVZ/MOVK x4 + BR whose built value is, bit for bit, the replacement address (R15.1/R15.2), or to MOVZ w/x0,#v ; RET "
           "for the boolean stub (R15.6); the entry bytes decode to B (imm26 = displacement/4 under a dominating range guard whose failing "
           "edge diverges before any entry write, R15.3) or on macOS ADRP/ADD/BR x16 with page delta and low-12 fields by provenance (R15.4); "
           "registers written are within x9..x17 plus x0 for the stub (R15.5); all trampoline writes precede the entry write (R15.7)"
           " Every returning path of an install root writes the function's entry (a path that writes nothing leaves the call running what was there before).")
NOT_DECIDED = "that the processor executes the words as the decode table says; atomicity of the 12-byte entry write"

CALLER_SAVED_TEMPS = {"x%d" % i for i in range(9, 18)}


def run(ck, models, tier):
    ck.decided, ck.not_decided = DECIDED, NOT_DECIDED
    ck.trusted += ["rustc MIR", "A64 decode table in analysis/isa.py (Arm ARM C6.2)", "std models in analysis/models.py"]
    ck.assumptions += ["A64 function entries are 4-byte aligned and mappings are page aligned, so (trampoline - function) % 4 == 0",
                       "user-space addresses do not wrap"]
    for tm in models:
        if tm.arch != "aarch64":
            continue
        recs = patches.analyse(tm)
        patches.missing_entry_writes(ck, "R15.2", tm, "aarch64")
        for key, m in tm.machines.items():
            for f in m.entered:
                ck.analysed_fn(tm.target, f)
        roots = sorted({r.root for r in recs})
        ck.floor("R15.0", "public-install-roots", len(roots), 6, tm.target)
        n_entry = n_tramp = 0
        for r in recs:
            rn = short(r.root)
            v = r.variant
            if r.role == "other":
                continue
            if r.err is not None:
                kind = "rel-range" if r.range_problem else "undecodable"
                ck.ob("R15.3" if r.role == "entry" else "R15.2", "%s/%s/%s/%s" % (tm.os, rn, r.role, kind), tm.target, False,
                      "%s bytes of %s: %s" % (r.role, rn, r.err), where(r.ev))
                continue
            mn = patches.mnemonics(r.sim)
            if r.role == "trampoline":
                n_tramp += 1
                if r.repl is not None:
                    ok, why = a64_dest_equals(r.dest, r.repl, r.pc, r.alloc_bound) if r.dest and r.dest[0] != "ret" else (False, "no branch to the replacement")
                    ck.ob("R15.2", "%s/%s/trampoline/dest" % (tm.os, rn), tm.target, ok, "trampoline decodes to %s; %s" % (mn, why), where(r.ev))
                    if r.dest and r.dest[0] == "bits":
                        # one register throughout, sf=1, hw=k
                        mv = [i for i in r.sim["ins"] if i["mn"] in ("movz", "movk")]
                        regs = {i["rd"] for i in mv}
                        ok2 = len(regs) == 1 and all(i["sf"] == 1 for i in mv) and [i["hw"] for i in mv] == [0, 1, 2, 3] and mv[0]["mn"] == "movz"
                        # (implied by the bit-for-bit destination above - the simulated register must hold all 64 bits of the replacement -
                        # so it is reported, not required: another way of loading the same value, e.g. a literal load, is as good)
                        ck.info("%s/%s trampoline layout: move-wide sequence %s (regs %s, sf %s)%s" % (
                            tm.os, rn, [(i["mn"], i["hw"]) for i in mv], sorted(regs), [i["sf"] for i in mv], "" if ok2 else " - not the movz/movk x4 form"))
                else:
                    # boolean stub R15.6
                    sim = r.sim
                    x0 = sim["regs"].get("x0")
                    ok = r.dest is not None and r.dest[0] == "ret" and r.dest[1] == "x30" and isinstance(x0, tuple)
                    why = "stub decodes to %s" % mn
                    if ok and r.boolval is not None:
                        exp0 = r.boolval.get_bits()[0]
                        ok = x0[0] == exp0 and all(b == 0 for b in x0[1:32])
                        why += "; w0 = %s (expected bit0 = the requested value, bits 1..31 = 0)" % fmt(from_bits(x0[:32]), 3)
                    ck.ob("R15.6", "%s/%s/stub" % (tm.os, rn), tm.target, ok, why, where(r.ev))
                wr = set(r.sim["written"])
                allowed = CALLER_SAVED_TEMPS | ({"x0"} if r.repl is None else set())
                ck.ob("R15.5", "%s/%s/trampoline/registers" % (tm.os, rn), tm.target, wr <= allowed and not r.sim["calls"],
                      "registers written by the trampoline: %s (allowed: x9..x17%s)" % (sorted(wr), " and x0 for the stub" if r.repl is None else ""), where(r.ev))
                # capacity
                al = alloc_events(v)
                if al and len(al[-1].args) > 1 and isinstance(al[-1].args[1], Int) and al[-1].args[1].is_const():
                    size = al[-1].args[1].cval()
                    cap = (size + 4095) // 4096 * 4096
                    ck.ob("R15.2", "%s/%s/trampoline/capacity" % (tm.os, rn), tm.target, 0 < size and r.sim["total"] <= cap,
                          "%d code bytes vs mapping of %d requested bytes" % (r.sim["total"], size), where(r.ev))
            elif r.role == "entry":
                n_entry += 1
                tr = [c for c in classify_writes(v, r.func) if c[1] == "trampoline"]
                if not tr:
                    ck.ob("R15.3", "%s/%s/entry/no-trampoline" % (tm.os, rn), tm.target, False, "entry written without a trampoline write on this path", where(r.ev))
                    continue
                tdst = tr[-1][2]
                form = {"expr": "b", "adrp": "adrp-add-br", "bits": "abs"}.get(r.dest[0] if r.dest else None, "none")
                ok, why = a64_dest_equals(r.dest, tdst, r.pc, r.alloc_bound) if r.dest else (False, "entry bytes contain no branch")
                ck.ob("R15.3" if form == "b" else "R15.4", "%s/%s/entry/%s/dest" % (tm.os, rn, form), tm.target, ok,
                      "entry patch decodes to %s; %s%s" % (mn, why, ("; " + "; ".join(r.notes)) if r.notes else ""), where(r.ev))
                # padding: remaining words are NOPs, total = 12
                tail = r.sim["ins"][r.sim["executed"]:]
                # (words after the unconditional branch are never executed: NOPs today, a literal or anything else is just as good; that
                # the length written is the length saved and restored is C02 R2.1 / C03 R3.8)
                ck.info("%s/%s entry patch is %d bytes; words after the branch: %s" % (tm.os, rn, r.sim["total"], [i["mn"] for i in tail]))
                wr = set(r.sim["written"])
                ck.ob("R15.5", "%s/%s/entry/registers" % (tm.os, rn), tm.target, wr <= CALLER_SAVED_TEMPS and not r.sim["calls"],
                      "registers written by the entry patch: %s (allowed: x9..x17)" % sorted(wr), where(r.ev))
                if r.dest and r.dest[0] == "adrp":
                    regs3 = {i.get("rd") for i in r.sim["ins"][:2]} | {r.sim["ins"][1].get("rn"), r.sim["ins"][2].get("rn")}
                    ck.ob("R15.4", "%s/%s/entry/adrp-same-register" % (tm.os, rn), tm.target, len(regs3) == 1,
                          "ADRP/ADD/BR use register(s) %s" % sorted(regs3), where(r.ev))
        if tm.os == "macos":
            k8 = patches.jit_window_obligations(ck, "R15.2", tm)
            ck.floor("R15.2", "trampoline-writes-in-a-jit-write-window", k8, 6, tm.target)
        # R15.7 the trampoline is complete before the entry branches to it (shared with C01 R1.8)
        k7 = patches.order_obligations(ck, "R15.7", tm)
        ck.floor("R15.7", "install-paths-with-entry-and-trampoline", k7, 6, tm.target)
        # R15.3: refusal happens before any entry write
        for p in roots:
            func = [r.func for r in recs if r.root == p][0]
            for v in tm.variants(p):
                if v.status == "returned":
                    continue
                bad = [c for c in classify_writes(v, func) if c[1] == "entry"]
                if bad:
                    # diverging after an entry write: only acceptable if that write passed the decode checks (flush failure)
                    ck.info("%s: path diverging after the entry write at %s" % (short(p), v.trace[-1].where()))
                else:
                    ck.ob("R15.3", "%s/%s/refuse-before-write" % (tm.os, short(p)), tm.target, True,
                          "diverging path (%s) writes nothing at the function entry" % (v.note,))
        ck.floor("R15.2", "trampoline-writes-decoded", n_tramp, 6, tm.target)
        ck.floor("R15.3", "entry-writes-decoded", n_entry, 6, tm.target)
