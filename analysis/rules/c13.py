"""C13 — redirection is transparent to the calling convention."""
from .common import *
from .codewrite import *
from . import patches

DECIDED = ("between caller and fake only the emitted entry and trampoline run; from their decoded instruction lists (all install roots, all "
           "path variants, all entry classes): every instruction is an unconditional branch, a NOP or a move of an immediate/literal into "
           "the scratch register (R13.1: no stack effect, no call, no flags consumer, no memory store); the registers written are within the "
           "target ABI's caller-saved, non-argument, non-result set — x86-64 {rax,r10,r11}, AArch64 {x9..x17}, ARM {r12} (R13.2); load and "
           "branch use the same register (R13.3). The boolean stub, which replaces the callee rather than redirecting to one, may write "
           "the result register. R13.4: the sequences transfer to the trampoline / the replacement for every address pair (the decision of "
           "C01 R1.1 / C15 / C16: arguments cannot arrive unchanged at a fake the jump does not reach).")
NOT_DECIDED = "nothing beyond the processor executing the decoded instructions as tabulated"

SCRATCH = {"x86_64": {"rax", "r10", "r11"}, "aarch64": {"x%d" % i for i in range(9, 18)}, "arm": {"r12"}}
RESULT = {"x86_64": {"rax"}, "aarch64": {"x0"}, "arm": {"r0"}}


def run(ck, models, tier):
    ck.decided, ck.not_decided = DECIDED, NOT_DECIDED
    ck.trusted += ["rustc MIR", "the three decode tables in analysis/isa.py", "System V / Win64 / AAPCS64 / AAPCS32 register roles"]
    for tm in models:
        recs = patches.analyse(tm)
        for key, m in tm.machines.items():
            for f in m.entered:
                ck.analysed_fn(tm.target, f)
        n = 0
        for r in recs:
            if r.role == "other" or r.variant.status != "returned":
                continue
            rn = short(r.root)
            cname = ("/" + r.cls[0]) if r.cls else ""
            if r.err is not None and not (r.range_problem is not None and r.sim is not None):
                ck.ob("R13.1", "%s/%s%s/%s/undecodable" % (tm.arch, rn, cname, r.role), tm.target, False,
                      "%s bytes cannot be decoded: %s" % (r.role, r.err), where(r.ev))
                continue
            n += 1
            sim = r.sim
            mn = patches.mnemonics(sim)
            stub = r.repl is None and r.role == "trampoline"
            allowed_mn = {"x86_64": {"jmp_rel", "jmp_reg", "mov_imm", "nop"} | ({"ret"} if stub else set()),
                          "aarch64": {"b", "br", "movz", "movk", "nop", "adrp", "add_imm"} | ({"ret"} if stub else set()),
                          "arm": {"nop", "ldr_lit", "bx", "mov_reg"}}[tm.arch]
            ins = sim.get("executed") if isinstance(sim.get("executed"), list) else sim["ins"]
            used = [i["mn"] for i in ins]
            bad = [u for u in used if u not in allowed_mn]
            ok1 = not bad and not sim.get("stack") and not sim.get("calls")
            ck.ob("R13.1", "%s/%s%s/%s/only-branches-and-scratch-moves" % (tm.arch, rn, cname, r.role), tm.target, ok1,
                  "%s sequence: %s%s" % (r.role, mn, ("; not allowed: %s" % bad) if bad else ""), where(r.ev))
            wr = set(w for w in sim["written"] if not w.startswith("_"))
            allowed = set(SCRATCH[tm.arch]) | (RESULT[tm.arch] if stub else set())
            off = sorted(wr - allowed)
            if off:
                state = ("T32" if r.cls[2] else "A32") if r.cls else r.role
                ck.ob("R13.2", "%s/%s/scratch-register/%s" % (tm.arch, state, off[0]), tm.target, False,
                      "%s sequence (%s) writes %s, outside the caller-saved non-argument set %s: the caller's value of that register is lost "
                      "across a call to a faked function" % (r.role, mn, ",".join(off), sorted(SCRATCH[tm.arch])), where(r.ev))
            else:
                ck.ob("R13.2", "%s/%s%s/%s/scratch-register" % (tm.arch, rn, cname, r.role), tm.target, True,
                      "%s sequence writes only %s" % (r.role, sorted(wr)), where(r.ev))
            # R13.3 same register in load and branch
            t = sim["transfer"]
            if t and t["kind"] in ("jmp_reg", "br", "bx"):
                reg = t["reg"]
                ck.ob("R13.3", "%s/%s%s/%s/load-branch-register" % (tm.arch, rn, cname, r.role), tm.target, reg in wr,
                      "branch through %s; registers loaded by the sequence: %s" % (reg, sorted(wr)), where(r.ev))
        ck.floor("R13.1", "decoded-sequences", n, 12 if tm.arch != "arm" else 18, tm.target)
        # R13.4 the arguments get to the fake at all: entry -> trampoline -> replacement (shared decision, see patches.reach_obligations)
        k = patches.reach_obligations(ck, "R13.4", tm, lambda r: True, "call-reaches-fake")
        ck.floor("R13.4", "patches-with-decided-destination", k, 12 if tm.arch != "arm" else 18, tm.target)
