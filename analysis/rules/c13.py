"""C13 — redirection is transparent to the calling convention."""
from .common import *
from .codewrite import *
from . import patches

PER_TARGET = True
NEEDS_WS = True
HOST_TRIPLE = "x86_64-unknown-linux-gnu"      # every rule below looks at one target configuration at a time (check.py may fork one worker per target)
DECIDED = ("between caller and fake only the emitted entry and trampoline run; from their decoded instruction lists (all install roots, all "
           "path variants, all entry classes): every instruction is an unconditional branch, a NOP or a move of an immediate/literal into "
           "the scratch register (R13.1: no stack effect, no call, no flags consumer, no memory store); the registers written are within the "
           "target ABI's caller-saved, non-argument, non-result set — x86-64 {rax,r10,r11}, AArch64 {x9..x17}, ARM {r12} (R13.2); load and "
           "branch use the same register (R13.3). The boolean stub, which replaces the callee rather than redirecting to one, may write "
           "the result register. R13.4: the sequences transfer to the trampoline / the replacement for every address pair (the decision of "
           "C01 R1.1 / C15 / C16: arguments cannot arrive unchanged at a fake the jump does not reach). R13.5: every function fake! generates has the ABI of the "
           "fn-pointer type it is recorded under (C08 R8.4 on the host harness): the fake reads its arguments where the caller put them.")
NOT_DECIDED = "nothing beyond the processor executing the decoded instructions as tabulated"

SCRATCH, RESULT = patches.SCRATCH, patches.RESULT


def run(ck, models, tier, ws):
    ck.decided, ck.not_decided = DECIDED, NOT_DECIDED
    ck.trusted += ["rustc MIR", "the three decode tables in analysis/isa.py", "System V / Win64 / AAPCS64 / AAPCS32 register roles"]
    for tm in models:
        recs = patches.analyse(tm)
        for key, m in tm.machines.items():
            for f in m.entered:
                ck.analysed_fn(tm.target, f)
        n = patches.convention_obligations(ck, ("R13.1", "R13.2", "R13.3"), tm)
        ck.floor("R13.1", "decoded-sequences", n, 12 if tm.arch != "arm" else 18, tm.target)
        # R13.4 the arguments get to the fake at all: entry -> trampoline -> replacement (shared decision, see patches.reach_obligations)
        k = patches.reach_obligations(ck, "R13.4", tm, lambda r: True, "call-reaches-fake")
        ck.floor("R13.4", "patches-with-decided-destination", k, 12 if tm.arch != "arm" else 18, tm.target)
        # R13.5 ... and the fake reads them where the caller put them: the function fake! generates has the ABI of the fn-pointer type it is
        # recorded (and gate-checked against the target) under (C08 R8.4; macro expansion is target-independent, decided on the host harness)
        if tm.target.startswith(HOST_TRIPLE):
            from .c08 import generated_convention_obligations
            k5 = generated_convention_obligations(ck, tm, tier, ws, "R13.5")
            ck.floor("R13.5", "fake-arms-with-decided-abi", k5, 52, tm.target)
