"""C02 — dropping the injector restores every faked function, for any install history."""
from .common import *
from .codewrite import *
from .lifecycle import *
from . import scans

PER_TARGET = True      # every rule below looks at one target configuration at a time (check.py may fork one worker per target)
USES_CONTROLS = True
DECIDED = ("the inductive premises of 'restore g_k..g_1 returns every address to its pre-history content': R2.1 in every normal variant of "
           "every public install root the bytes are saved (read of [addr, addr+n)) before the entry is written, at the same address, and the "
           "guard records (addr, saved, len) with len == bytes written and n >= len; R2.2 the guard's destructor writes exactly "
           "saved[..len] at addr; R2.3 the injector tears its guards down in reverse installation order (insertion discipline x teardown "
           "order); R2.4 every guard is stored in the injector's container on every normal path and nothing in the crate forgets/leaks "
           "values (mem::forget, ManuallyDrop, Box::leak: call-site count 0)")
NOT_DECIDED = "that no other agent modifies the code between installation and restoration; byte-level equality is by value flow, not by execution"

FORGET_FNS = ("std::mem::forget", "std::mem::ManuallyDrop::<T>::new", "std::boxed::Box::<T, A>::leak", "std::boxed::Box::<T>::leak",
              "std::vec::Vec::<T, A>::leak", "std::mem::ManuallyDrop", "std::boxed::Box::<T, A>::into_raw", "std::boxed::Box::<T>::into_raw")


def run(ck, models, tier):
    ck.decided, ck.not_decided = DECIDED, NOT_DECIDED
    ck.trusted += ["rustc MIR (incl. drop elaboration)", "Rust drop order semantics (Drop::drop, then fields in declaration order; Vec elements front to back)",
                   "std models"]
    for tm in models:
        g = guard_roles(tm)
        ck.ob("R2.2", "guard-type-discovered", tm.target, g.adt is not None and not g.problems,
              "restore guard = %s (destructor %s); roles: addr=%s saved=%s len=%s" % (g.adt, g.drop_fn, g.addr, g.saved, g.len))
        if g.adt is None:
            continue
        for key, m in list(tm.machines.items()):
            for f in m.entered:
                ck.analysed_fn(tm.target, f)
        # ---------------- R2.2 destructor writes saved[..len] at addr
        nw = 0
        for v in tm.variants(g.drop_fn):
            for ev in code_writes(v):
                nw += 1
                dst, cnt = ev.extra["dst"], ev.extra["count"]
                src = ev.extra.get("src")
                se = src.e if isinstance(src, Int) else src
                ok_dst = self_field(resolve_alias(v, dst)[0].e) == g.addr and g.addr is not None
                ok_cnt = (self_field(cnt.e) == g.len and g.len is not None) or (
                    g.len_is_saved_len and cnt.e.op == "vec_len" and self_field(cnt.e.args[0]) == g.saved)
                ok_src = False
                if isinstance(se, E):
                    x = se
                    if x.op == "vec_ptr":
                        x = x.args[0]
                    if x.op == "prefix" and len(x.args) == 2:
                        x = x.args[0]
                    ok_src = x.op == "vec_content" and self_field(x.args[0]) == g.saved
                ck.ob("R2.2", "restore-writes-saved-prefix", tm.target, ok_dst and ok_cnt and ok_src,
                      "destructor copies %s byte(s) from %s to %s; expected self.%s[..self.%s] -> self.%s" % (
                          fmt(cnt.e, 3), fmt(se, 4) if isinstance(se, E) else se, fmt(dst.e, 3), g.saved, g.len, g.addr), where(ev))
        ck.floor("R2.2", "restore-writes", nw, 1, tm.target)
        # every normal path of the destructor restores (a conditional restore leaves the patch in place on the other edge)
        destructor_always_restores(ck, tm, g, "R2.2")
        # ---------------- R2.1 / R2.4 per install root
        roots = patches.roots_and_roles(tm)
        ck.floor("R2.1", "public-install-roots", len(roots), 6, tm.target)
        containers = set()
        for p, func, repl, boolval in roots:
            rn = short(p)
            nn = 0
            for v in tm.variants(p):
                if v.status != "returned":
                    continue
                cw = classify_writes(v, func)
                entries = [c for c in cw if c[1] == "entry"]
                if tm.arch == "arm":
                    entries = [(ev, "entry", ev.extra["dst"], ev.extra["dst"], None) for ev in code_writes(v)]
                pg = pushed_guards(v, g.adt)
                ok4 = len(pg) == 1 and not any(e.kind == "drop" and g.adt in e.name for e in v.trace)
                ck.ob("R2.4", "%s/guard-retained" % rn, tm.target, ok4,
                      "normal path stores %d guard(s) in the injector and drops %d" % (len(pg), sum(1 for e in v.trace if e.kind == "drop" and g.adt in e.name)),
                      where(pg[0][0]) if pg else None)
                if len(pg) != 1 or len(entries) != 1:
                    if len(entries) != 1:
                        ck.ob("R2.1", "%s/entry-write-count" % rn, tm.target, False, "normal path performs %d entry writes" % len(entries))
                    continue
                nn += 1
                pev, gv, cont = pg[0]
                containers.add(cont)
                cf, owner = container_field(cont)
                inj_, field_, idx_, kind_ = injector_adt(tm, g.adt)
                want = [n_ for a_, n_, i_ in container_chain(tm, g.adt)]
                got = container_names(cont)
                ck.ob("R2.4", "%s/stored-in-the-injector" % rn, tm.target, bool(got) and got == want[:len(got)] or got == want,
                      "the guard is pushed into %s (field path %s; the injector's container is %s)" % (fmt(cont, 5), got, want), where(pev))
                eev, _, edst, ereal, alias = entries[0]
                reads = [e for e in v.trace if e.kind == "raw_read" and e.idx < eev.idx]
                rd = [e for e in reads if same_expr(e.extra["src"].e, ereal.e)]
                ok_read = len(rd) >= 1
                ck.ob("R2.1", "%s/save-before-write" % rn, tm.target, ok_read,
                      "%d read(s) of the original bytes at the entry address precede the entry write (reads before write: %d)" % (len(rd), len(reads)), where(eev))
                if not ok_read:
                    continue
                r0 = rd[-1]
                ga, gs, gl = guard_field(gv, None, g.addr), guard_field(gv, None, g.saved), guard_field(gv, None, g.len)
                ok_addr = isinstance(ga, Int) and same_expr(ga.e, ereal.e)
                ok_len = isinstance(gl, Int) and same_expr(gl.e, eev.extra["count"].e)
                if g.len_is_saved_len:
                    # the destructor restores saved[..]: what matters is that exactly as many bytes were saved as were written
                    ok_len = same_expr(r0.extra["count"].e, eev.extra["count"].e)
                    gl = r0.extra["count"]
                rc = r0.extra["count"]
                ok_saved = isinstance(gs, VecV) and gs.content is not None and gs.content.op == "mem" and same_expr(gs.content.args[0], ereal.e)
                ge = False
                if isinstance(gl, Int) and gl.is_const() and rc.is_const():
                    ge = rc.cval() >= gl.cval()
                elif isinstance(gl, Int):
                    ge = same_expr(rc.e, gl.e)
                ck.ob("R2.1", "%s/guard-records-what-was-written" % rn, tm.target, ok_addr and ok_len and ok_saved and ge,
                      "guard.%s=%s (entry %s), guard.%s=%s (written %s), guard.%s=%s, saved %s byte(s) >= restored %s" % (
                          g.addr, fmt(ga.e, 3) if isinstance(ga, Int) else ga, fmt(ereal.e, 3), g.len, fmt(gl.e) if isinstance(gl, Int) else gl,
                          fmt(eev.extra["count"].e), g.saved, gs, fmt(rc.e), fmt(gl.e) if isinstance(gl, Int) else "?"), where(pev))
            ck.floor("R2.1", "%s/normal-variants" % rn, nn, 1, tm.target)
        # ---------------- R2.5 "the most recent installation stays in effect while the injector lives": nothing releases a live
        # trampoline - the release primitive is only applied to the allocator's own rejected result and in the guard's destructor
        if tm.arch != "arm":
            release_rules(ck, tm, g, "R2.5")
            restore_before_release(ck, tm, g, "R2.5")
        # ---------------- R2.6 "behaves exactly as before": the restored bytes are what the cores execute - the restoring write is followed
        # by an instruction-cache flush covering it (C17 R17.1/R17.2 on the destructor)
        from .c17 import flush_obligations
        k6 = flush_obligations(ck, tm, ("R2.6", "R2.6"), install=False, restore=True)
        ck.floor("R2.6", "restoring-writes-checked-for-flush", k6, 1, tm.target)
        # ---------------- R2.7 the restoring write cannot fault: on its own path it is preceded by a protection change that covers it (C01 R1.3
        # on the destructor) - otherwise the process dies in the destructor and nothing is restored
        k7 = write_protection_obligations(ck, tm, g, "R2.7", install=False, restore=True)
        ck.floor("R2.7", "restoring-writes-checked-for-protection", k7, 1, tm.target)
        # ---------------- R2.3 LIFO
        inj, field, idx, kind = injector_adt(tm, g.adt)
        ck.ob("R2.3", "injector-container", tm.target, inj is not None, "guards are kept in %s.%s : %s<%s>" % (inj, field, kind, short(g.adt or "?")))
        if inj:
            ins, sites = insertion_discipline(tm, g.adt)
            order, why, wh, dfn = teardown_order(tm, inj, field, g.adt)
            ok = (ins == {"append"} and order == "lifo") or (ins == {"prepend"} and order == "fifo")
            ck.ob("R2.3", "teardown-order/%s+%s" % ("+".join(sorted(ins)) or "none", order), tm.target, ok,
                  "install roots insert guards by %s; %s. %s" % (
                      sorted(ins), why,
                      "Restoration runs newest-first, so the bytes saved first are written last." if ok else
                      "Restoration runs OLDEST-first: when one function is faked twice through the same injector the first guard restores the original "
                      "bytes, then the second guard writes back the *first patch* it had saved — after drop the function still jumps to a "
                      "trampoline that has been unmapped."), wh)
            # field order: nothing to check here (C04 R4.5 covers lock-last)
        # ---------------- R2.4 guards stay in the container until teardown: outside the owners' destructors it is append-only
        if inj:
            muts = chain_mutations(tm, g.adt)
            for fn, what, line, lvl in muts:
                ck.ob("R2.4", "container-mutated-outside-teardown/%s/%s" % (short(fn), short(what)), tm.target, False,
                      "%s applies %s to %s: removing, replacing or reordering stored guards before the injector is dropped restores a "
                      "function out of order (an earlier guard writes its saved bytes over a later patch) or never" % (fn, what, lvl),
                      "%s:%d" % (tm.facts.body(fn)["span"]["file"], line))
            ck.ob("R2.4", "container-append-only-until-teardown", tm.target, not muts,
                  "%d non-append use(s) of `&mut` on the guards container (chain %s) outside destructors" % (
                      len(muts), " -> ".join("%s.%s" % (short(a_), n_) for a_, n_, i_ in container_chain(tm, g.adt))))
        # ---------------- R2.4 who-may-call = {} for forgetting primitives
        sites = scans.forget_sites(tm.facts)
        for fn, name, t in sites:
            ck.ob("R2.4", "forget-site/%s/%s" % (short(fn), short(name)), tm.target, False,
                  "%s calls %s: a guard or injector that is forgotten is never restored" % (fn, name),
                  "%s:%d" % (t["span"]["file"], t["span"]["line"]) if t.get("span") else None)
        ck.ob("R2.4", "no-forget-sites", tm.target, not sites, "%d call sites of mem::forget / ManuallyDrop / leak / into_raw in the crate" % len(sites))
    scans.control(ck, ck.ws, "R2.4", "forget-or-ManuallyDrop-call", scans.forget_sites, 2)

    def ctl_container(f):
        for p_, a in f.adts.items():
            for i, fl in enumerate(a["variants"][0]["fields"]):
                if fl["ty"].get("path") == "std::vec::Vec":
                    return scans.container_mutations(f, p_, i)
        return []
    scans.control(ck, ck.ws, "R2.4", "container-mutation-other-than-append", ctl_container)
