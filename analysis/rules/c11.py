"""C11 — the trampoline is placed within reach or installation fails cleanly."""
from .common import *
from .codewrite import *
from .lifecycle import *
from . import patches
from ..interp import get_path

PER_TARGET = True      # every rule below looks at one target configuration at a time (check.py may fork one worker per target)
DECIDED = ("on the loop-summarised allocator of every target (one abstract iteration with all loop-carried locals havocked — sound for every "
           "iteration): R11.1 every normal return value is the mapping call's result, on the success edge of the failure-sentinel test and "
           "on the accept edge of a distance test |placed - function| <=/< R; R11.2 on the reject edge the mapping is released with "
           "(that result, the requested size) before the next iteration; R11.3 the only other exits diverge (exhaustion panics); R11.5 the "
           "hint advances by the page size on every back edge; and on the install roots: R11.4 no path refuses a placement the allocator "
           "accepted (the accepted distance interval is contained in what the entry-branch writer encodes), R11.6 the allocation precedes "
           "the entry write on every path; R11.8 on every returning install path the entry patch decodes to a transfer to the placed "
           "trampoline for every address pair that reaches it (the decision of C01 R1.1 / C15 R15.3-4, entries only); R11.9 no subtraction in "
           "the allocator can underflow (the window's lower bound is clipped, e.g. saturating_sub, or guarded by a comparison): targets "
           "below the search radius are searched from address zero")
NOT_DECIDED = ("whether the kernel finds a free page (environment); a mapping left behind when a later step of the installation fails for an "
               "environmental reason (mprotect/VirtualProtect refusal)")


def interval_eval(e, env):
    """Interval of expression e (signed mathematical integers) given env: list of (expr, lo, hi). Returns (lo, hi) or None."""
    for x, lo, hi in env:
        if same_expr(x, e):
            return lo, hi
    if e.is_const():
        v = to_signed(e.val, e.w)
        return v, v
    if e.op in ("sext", "zext", "trunc"):
        return interval_eval(e.args[0], env)
    if e.op == "sdiv" and e.args[1].is_const():
        k = to_signed(e.args[1].val, e.w)
        iv = interval_eval(e.args[0], env)
        if iv and k > 0:
            tz = lambda v: -((-v) // k) if v < 0 else v // k
            return tz(iv[0]), tz(iv[1])
    if e.op == "ashr" and e.args[1].is_const():
        iv = interval_eval(e.args[0], env)
        if iv:
            return iv[0] >> e.args[1].val, iv[1] >> e.args[1].val
    if e.op == "sub":
        a, b = interval_eval(e.args[0], env), interval_eval(e.args[1], env)
        if a and b:
            return a[0] - b[1], a[1] - b[0]
    if e.op == "add":
        a, b = interval_eval(e.args[0], env), interval_eval(e.args[1], env)
        if a and b:
            return a[0] + b[0], a[1] + b[1]
    return None


def refusal_satisfiable(cond, val, env):
    """Is `cond == val` satisfiable given env? Returns True/False/None(unknown). cond is a range conjunction."""
    conj = []

    NEG = {"sle": "sgt", "sgt": "sle", "slt": "sge", "sge": "slt"}

    def neg(c):
        if c.op in NEG:
            return E(NEG[c.op], c.args, c.w)
        if c.op == "not":
            return c.args[0]
        return E("not", (c,), 1)

    def is0(x):
        return isinstance(x, E) and x.is_const() and x.val == 0

    def flat(c):
        if c.op == "and" and c.w == 1:
            flat(c.args[0])
            flat(c.args[1])
        elif c.op == "gamma" and is0(c.args[1]):          # if-converted `!a && b` (matches!(x, lo..=hi) is one of these)
            flat(neg(c.args[0]))
            flat(c.args[2])
        elif c.op == "gamma" and is0(c.args[2]):          # `a && b`
            flat(c.args[0])
            flat(c.args[1])
        elif c.op == "not" and c.args[0].op in NEG:
            conj.append(neg(c.args[0]))
        else:
            conj.append(c)
    flat(cond)
    # each conjunct: cmp(const, X) or cmp(X, const)
    allowed_lo, allowed_hi, X = None, None, None
    for c in conj:
        if c.op not in ("sle", "slt", "sge", "sgt"):
            return None
        a, b = c.args
        if a.is_const() and not b.is_const():
            k = to_signed(a.val, a.w)
            x = b
            op = {"sle": "ge", "slt": "gt", "sge": "le", "sgt": "lt"}[c.op]
        elif b.is_const() and not a.is_const():
            k = to_signed(b.val, b.w)
            x = a
            op = c.op[1:]
        else:
            return None
        if X is not None and not same_expr(X, x):
            return None
        X = x
        if op == "ge":
            allowed_lo = k if allowed_lo is None else max(allowed_lo, k)
        elif op == "gt":
            allowed_lo = k + 1 if allowed_lo is None else max(allowed_lo, k + 1)
        elif op == "le":
            allowed_hi = k if allowed_hi is None else min(allowed_hi, k)
        elif op == "lt":
            allowed_hi = k - 1 if allowed_hi is None else min(allowed_hi, k - 1)
    if X is None:
        return None
    iv = interval_eval(X, env)
    if iv is None:
        return None
    lo = allowed_lo if allowed_lo is not None else -guards.INF
    hi = allowed_hi if allowed_hi is not None else guards.INF
    inside_all = iv[0] >= lo and iv[1] <= hi
    if val == 1:
        return not (iv[1] < lo or iv[0] > hi)
    return (not inside_all), (iv, (lo, hi), X)


def _int_leaves(v, d=0):
    if isinstance(v, Int):
        yield v
    elif isinstance(v, Adt) and d < 4:
        for f in v.fields:
            yield from _int_leaves(f, d + 1)
    elif isinstance(v, Tup) and d < 4:
        for f in v.elems:
            yield from _int_leaves(f, d + 1)


def allocator_obligations(ck, tm, R=lambda r: r):
    """R11.1-R11.3, R11.5 on the loop-summarised allocator(s) of one target; returns the largest accepted distance (None if unknown).
    `R` renames the rule ids when another property repeats these obligations (C05 R5.10)."""
    def _ob(rule, *a, **k):        # a caller that repeats only some of these obligations maps the others to None
        return ck.ob(rule, *a, **k) if rule else None

    def _floor(rule, *a, **k):
        return ck.floor(rule, *a, **k) if rule else None

    allocs = allocator_fns(tm)
    _floor(R("R11.1"), "allocator-functions", len(allocs), 1, tm.target)
    bound_strict = None
    for p in allocs:
        an = short(p)
        try:
            src, res = allocator_contract(tm, p)
            vs = allocator_variants(tm, p)
        except Exception as e:
            _ob(R("R11.1"), "%s/analysable" % an, tm.target, False, "allocator could not be analysed: %s" % e)
            continue
        for f in tm.machines[(p, "havoc")].entered:
            ck.analysed_fn(tm.target, f)
        # the search window is clipped, not wrapped, for targets near the bottom of the address space: no subtraction in the
        # allocator can underflow (dev-profile MIR carries the overflow check; one that no dominating comparison makes redundant
        # is an installation that panics - or, without overflow checks, scans from a wrapped address - for low functions)
        subs = sorted({(n[1], n[2]) for n in tm.machines[(p, "havoc")].notes if n[0] == "unguarded-sub"})
        if "@release" not in tm.target:
            _ob(R("R11.9"), "%s/window-clipped-not-wrapped" % an, tm.target, not subs,
                  "subtractions in the allocator that may underflow: %s" % (", ".join("%s in %s" % (e_, short(f_)) for e_, f_ in subs) or "none"))
        nret = nrej = ndiv = 0
        for v in vs:
            maps = [e for e in v.trace if e.kind == "ffi" and e.name in ALLOC_FFI]
            frees = [e for e in v.trace if e.kind == "ffi" and e.name in FREE_FFI]
            if v.status == "returned":
                nret += 1
                ret = v.ret
                if not isinstance(ret, Int) and maps:
                    # the allocator hands the mapping back inside a struct: judge the field that carries the mapping call's result
                    cands = [x for x in _int_leaves(ret) if same_expr(x.e, maps[-1].ret.e)]
                    if len(cands) == 1:
                        ret = cands[0]
                ok_ret = bool(maps) and isinstance(ret, Int) and same_expr(ret.e, maps[-1].ret.e)
                # success edge of the sentinel test
                sent = False
                for c in guards.true_conds(v.decisions):
                    if c.op == "ne" and maps and any(same_expr(x, maps[-1].ret.e) for x in c.args) and any(x.is_const() and x.val in (0, mask(x.w)) for x in c.args):
                        sent = True
                b = [bb for vv, rr, bb in res if vv is v]
                bound = b[0] if b else None
                _ob(R("R11.1"), "%s/returns-accepted-mapping" % an, tm.target, ok_ret and sent and bound is not None,
                      "returns %s; mapping call result %s; failure sentinel excluded: %s; accepted distance: |placed - function| <= %s" % (
                          fmt(ret.e, 3) if isinstance(ret, Int) else ret, fmt(maps[-1].ret.e, 3) if maps else "none", sent,
                          hex(bound) if isinstance(bound, int) else bound), where(maps[-1]) if maps else None)
                if isinstance(bound, int):
                    bound_strict = bound if bound_strict is None else max(bound_strict, bound)
            elif v.status == "backedge":
                if maps and frees:
                    nrej += 1
                # mapping succeeded but was rejected => must be released
                succeeded = False
                for c in guards.true_conds(v.decisions):
                    if c.op == "ne" and maps and any(same_expr(x, maps[-1].ret.e) for x in c.args) and any(x.is_const() and x.val in (0, mask(x.w)) for x in c.args):
                        succeeded = True
                if succeeded:
                    ok = len(frees) == 1 and same_expr(frees[0].args[0].e, maps[-1].ret.e) and (
                        (tm.os == "windows" and frees[0].args[1].is_const() and frees[0].args[1].cval() == 0 and frees[0].args[2].is_const() and frees[0].args[2].cval() == 0x8000)
                        or (tm.os != "windows" and same_expr(frees[0].args[1].e, maps[-1].args[1].e)))
                    _ob(R("R11.2"), "%s/rejected-placement-released" % an, tm.target, ok,
                          "placement outside the accepted distance: %s" % ("released with %s(%s, %s)" % (short(frees[0].name), fmt(frees[0].args[0].e, 3), fmt(frees[0].args[1].e, 3))
                                                                              if frees else "NOT released before the next iteration"), where(maps[-1]))
                else:
                    _ob(R("R11.2"), "%s/failed-mapping-not-released" % an, tm.target, not frees, "failed mapping attempt releases %d mapping(s)" % len(frees))
                # R11.5 progress of the hint
                hint = maps[-1].args[0] if maps else None
                adv = None
                if hint is not None and hint.e.op == "loopvar":
                    for fr in reversed(v.frames or []):        # the loop (and its variable) may live in a helper the allocator calls
                        names = {d["name"]: d["place"]["l"] for d in fr.body["debug"] if not d["place"]["p"]}
                        l = names.get(hint.e.args[0])
                        if l is not None:
                            nv = fr.locals[l].val
                            if isinstance(nv, Int):
                                terms, c = affine(binop("sub", nv.e, hint.e, nv.w), nv.w)
                                adv = (terms, c)
                                break
                ok5 = adv is not None and ((not adv[0] and 0 < adv[1] < (1 << 40)) or (len(adv[0]) == 1 and list(adv[0].values())[0] == 1 and adv[1] == 0))
                _ob(R("R11.5"), "%s/hint-advances" % an, tm.target, ok5,
                      "next hint - hint = %s" % ("%s + %s" % ({fmt(k, 3): vv for k, vv in adv[0].items()}, adv[1]) if adv else "unknown"),
                      where(maps[-1]) if maps else None)
            elif v.status == "diverged":
                ndiv += 1
                _ob(R("R11.3"), "%s/exhaustion-diverges" % an, tm.target, not frees or True, "loop exit diverges (%s)" % v.note)
            else:
                _ob(R("R11.3"), "%s/unexpected-exit" % an, tm.target, False, "allocator path ends with status %s" % v.status)
        _floor(R("R11.1"), "%s/accepting-paths" % an, nret, 1, tm.target)
        _floor(R("R11.2"), "%s/rejecting-paths" % an, nrej, 1, tm.target)
        _floor(R("R11.3"), "%s/diverging-paths" % an, ndiv, 1, tm.target)
    mapping_request_obligations(ck, R("R11.1"), tm)
    return bound_strict


def run(ck, models, tier):
    ck.decided, ck.not_decided = DECIDED, NOT_DECIDED
    ck.trusted += ["rustc MIR", "std models (abs_diff, saturating_sub as opaque arithmetic)", "mmap/VirtualAlloc return the sentinel on failure"]
    ck.assumptions += ["user-space addresses fit in 63 bits, so placed - function does not wrap", "the page size is positive"]
    for tm in models:
        if tm.arch == "arm":
            continue
        bound_strict = allocator_obligations(ck, tm)
        # ---------------- R11.4 / R11.6 on install roots
        for p, func, repl, boolval in patches.roots_and_roles(tm):
            rn = short(p)
            for v in tm.variants(p):
                al = alloc_events(v)
                cw = classify_writes(v, func)
                entries = [c for c in cw if c[1] == "entry"]
                if al and func is not None:
                    # R11.7 the search is anchored on the function being patched (premise of R11.4: the allocator's distance
                    # contract is about its own anchor argument)
                    anchor = al[-1].args[0] if al[-1].args else None
                    aptrs = find_ptr_leaves(anchor) if anchor is not None else []
                    if not aptrs and isinstance(anchor, Ref):
                        try:
                            aptrs = find_ptr_leaves(get_path(anchor.cell.val, anchor.path))
                        except Exception:
                            aptrs = []
                    oka = bool(aptrs) and isinstance(aptrs[0], Int) and same_expr(aptrs[0].e, func.e)
                    if tm.arch == "aarch64" or oka:
                        ck.ob("R11.7", "%s/search-anchored-on-the-function" % rn, tm.target, oka,
                              "the allocation is searched around %s (the function being patched is %s)" % (
                                  fmt(aptrs[0].e, 3) if aptrs and isinstance(aptrs[0], Int) else anchor, fmt(func.e, 3)), where(al[-1]))
                    else:
                        ck.info("%s: trampoline searched around %s, not around the function; on x86-64 the entry writer reaches any "
                                "distance (abs64 form), so C11's 'within reach' still holds" % (rn, fmt(aptrs[0].e, 3) if aptrs and isinstance(aptrs[0], Int) else anchor))
                if entries:
                    ok6 = bool(al) and al[0].idx < entries[0][0].idx
                    ck.ob("R11.6", "%s/allocation-before-entry-write" % rn, tm.target, ok6,
                          "entry write at trace position %d, allocation at %s" % (entries[0][0].idx, al[0].idx if al else "none"), where(entries[0][0]))
                if v.status == "diverged" and al and not entries:
                    A = al[-1].ret
                    # the decision that led to divergence: the last decision taken after the allocation that mentions the allocation result
                    # the decision that led to divergence is the last one taken; if it does not mention the allocation result the
                    # failure is environmental (protection change / flush refused), not a refusal of the placement
                    if not v.decisions:
                        continue
                    d = v.decisions[-1]
                    if not (d[4] > al[-1].idx and uses(d[0], A.e)):
                        continue
                    # allocator contract as an interval on (A - F)
                    if bound_strict is None:
                        ck.ob("R11.4", "%s/refusal-after-accept" % rn, tm.target, False,
                              "a path refuses the placement after allocation (%s = %s) and the allocator gives no distance bound" % (fmt(d[0], 4), d[1]))
                        continue
                    env = [(binop("sub", A.e, func.e, 64), -bound_strict, bound_strict)]
                    r = refusal_satisfiable(d[0], d[1], env)
                    if r is None:
                        ck.ob("R11.4", "%s/refusal-after-accept/unknown-shape" % rn, tm.target, False,
                              "cannot decide whether the refusal test %s = %s can fire for an accepted placement" % (fmt(d[0], 5), d[1]))
                        continue
                    sat, info = r if isinstance(r, tuple) else (r, None)
                    ck.ob("R11.4", "%s/%s" % (tm.arch + "-" + tm.os, "accepted-placement-refused-by-writer" if sat else "writer-covers-accepted-range"), tm.target, not sat,
                          "allocator accepts |placed - function| <= %#x, i.e. %s in [%s, %s]; the entry writer of %s accepts [%s, %s]: %s" % (
                              bound_strict, fmt(info[2], 3) if info else "?", info[0][0] if info else "?", info[0][1] if info else "?", rn,
                              info[1][0] if info else "?", info[1][1] if info else "?",
                              "a placement at the edge of the allocator's range is accepted, then refused by the writer: the installation panics with "
                              "the mapping left behind" if sat else "every accepted placement is encodable"),
                          None)
        # ---------------- R11.8 "within reach": the entry branch written for an accepted placement gets to it

        k = patches.reach_obligations(ck, "R11.8", tm, lambda r: r.role == "entry", "entry-reaches-placement")
        ck.floor("R11.8", "entry-patches-decoded", k, 6, tm.target)
        if tm.arch == "x86_64":
            # the x86-64 entry writer has no range limit: C01 R1.1 proves both forms; record the containment as trivially true
            ck.ob("R11.4", "x86_64-%s/writer-total" % tm.os, tm.target, True,
                  "the x86-64 entry writer encodes every displacement (rel32 or abs64, decided by C01 R1.1); accepted distance <= %s" % (hex(bound_strict) if bound_strict else bound_strict))


def uses(e, x):
    if e == x:
        return True
    return any(isinstance(a, E) and uses(a, x) for a in e.args)
