"""C06 — `times: N` admits exactly N matching calls and is verified at scope exit."""
from .common import *
from .macros import *
from . import macros as mac
from . import roles
from .lifecycle import *

PER_TARGET = True      # every rule below looks at one target configuration at a time (check.py may fork one worker per target)
NEEDS_WS = True
DECIDED = ("on the MIR of one generated instantiation per fake! arm that has `times` (arms enumerated from rustc's parse of the macro): R6.1 "
           "exactly one atomic read-modify-write (fetch_add by 1) of the arm's counter on an admitted or over-budget call and no separate "
           "load/store — so no interleaving loses or doubles an admission; R6.2 the previous value is compared with the budget so that the "
           "admitted edge has prev in [0, N-1] and the over-budget edge (prev >= N) diverges before any user piece runs; R6.3 the RMW is "
           "reachable only on the `when`-true edge, the false edge diverges without touching the counter; R6.4 the verifier returned with "
           "the fake holds the same static and the same budget; R6.5 (library) the verifier's destructor compares load(counter) != expected, "
           "panics only when not already unwinding, and the message carries both numbers; R6.6 will_execute stores the verifier in the "
           "injector before installing; R6.7 the counter is reset on the way into the installation, so N refers to this installation's calls; "
           "R6.8 the verdict at scope exit reads the counter before the injector lock is released (verifier field dropped before the MutexGuard field)")
NOT_DECIDED = "atomicity is trusted to std::sync::atomic; the number of calls a given program makes"


def run(ck, models, tier, ws):
    ck.decided, ck.not_decided = DECIDED, NOT_DECIDED
    ck.trusted += ["rustc macro expansion and MIR", "std::sync::atomic RMW operations are atomic", "std models"]
    for tm in models:
        run_one(ck, tm, tier, ws)


def run_one(ck, tm, tier, ws):
    hm = mac.get(ws, tm.facts, tier)
    vtypes = roles.verifier_types(tm.facts)          # the verifier type(s), found by role
    n_arms = 0
    for mod, d in hm.modules("fake"):
        arm = d["arm"]
        o = arm.options()
        if not o["times"]:
            continue
        key = "arm%02d[%s]/%s" % (arm.index, arm.label(), d["shape"]["name"])
        if not hm.accepted(mod):
            ck.info("%s does not compile (C08 R8.1 reports it); not analysable here" % key)
            continue
        n_arms += 1
        fake = mod + "::instantiate::fake"
        vs = hm.variants(fake)
        ck.analysed_fn("harness:" + tm.target, fake)
        counters = set()
        admitted = over = rejected = 0
        for v in vs:
            rm = rmw_events(v)
            acc = counter_accesses(v)
            conds = markers(v, COND)
            cond_false = any(d_[0].op == "ret" and d_[0].args[0] in COND and d_[1] == 0 for d_ in v.decisions)
            if cond_false:
                rejected += 1
                ck.ob("R6.3", "%s/rejected-call-uncounted" % key, tm.target, v.status == "diverged" and not acc and not markers(v, ASSIGN + RET),
                      "`when` false: status=%s, counter accesses=%d, later user pieces=%d" % (v.status, len(acc), len(markers(v, ASSIGN + RET))))
                continue
            ok1 = len(rm) == 1 and len(acc) == 1 and rm[0].name.endswith("fetch_add") and isinstance(rm[0].args[1], Int) and rm[0].args[1].is_const() and rm[0].args[1].cval() == 1
            ck.ob("R6.1", "%s/one-atomic-rmw" % key, tm.target, ok1,
                  "counter accesses on this path: %s" % [short(e.name) for e in acc], where(rm[0]) if rm else None)
            if not rm:
                continue
            st = static_of(rm[0].args[0])
            counters.add(st)
            if o["when"]:
                okc = bool(conds) and conds[0].idx < rm[0].idx and any(d_[0].op == "ret" and d_[0].args[0] in COND and d_[1] == 1 and d_[4] <= rm[0].idx for d_ in v.decisions)
                ck.ob("R6.3", "%s/rmw-only-when-matched" % key, tm.target, okc, "the RMW is %s the `when`-true edge" % ("on" if okc else "NOT on"), where(rm[0]))
            prev = rm[0].ret
            lo, hi = guards.interval_of(prev.e, v.decisions, signed=False)
            after = [e for e in markers(v) if e.idx > rm[0].idx]
            if v.status == "returned":
                admitted += 1
                ck.ob("R6.2", "%s/admitted-interval" % key, tm.target, lo <= 0 and hi == hm_times() - 1,
                      "admitted edge: prev in [%s, %s]; expected [0, N-1] with N = %d" % (lo, hi, hm_times()), where(rm[0]))
            elif v.status == "diverged":
                over += 1
                ck.ob("R6.2", "%s/over-budget-diverges-first" % key, tm.target, lo == hm_times() and not after,
                      "over-budget edge: prev in [%s, %s] (expected [N, inf)), user pieces run after the RMW: %d" % (lo, hi, len(after)), where(rm[0]))
        ck.ob("R6.2", "%s/both-edges-present" % key, tm.target, admitted >= 1 and over >= 1 and (rejected >= 1 or not o["when"]),
              "paths: admitted=%d over-budget=%d rejected=%d" % (admitted, over, rejected))
        # R6.4 verifier
        inst = hm.variants(mod + "::instantiate")
        for v in inst:
            if v.status != "returned":
                continue
            ver = None
            r = v.ret
            if isinstance(r, Tup):
                for x in r.elems:
                    if isinstance(x, Adt) and any(x.path.split("::")[-1] == vt.split("::")[-1] for vt in vtypes):
                        ver = x
            ok = ver is not None and len(ver.fields) >= 2 and static_of(ver.fields[0]) in counters and len(counters) == 1 \
                and isinstance(ver.fields[1], Int) and ver.fields[1].is_const() and ver.fields[1].cval() == hm_times()
            ck.ob("R6.4", "%s/verifier-same-counter-and-budget" % key, tm.target, ok,
                  "verifier = %s; fake increments %s" % (ver, sorted(c for c in counters if c)))
    ck.floor("R6.1", "times-arms-analysed", n_arms, 28)
    # ---------------- R6.5 / R6.6 on the library
    for adt, p in tm.drop_impls():
        if adt not in vtypes:
            continue
        vs = tm.variants(p)
        for f in tm.machines[(p, None)].entered:
            ck.analysed_fn(tm.target, f)
        npan = 0
        for v in vs:
            loads = [e for e in v.trace if e.kind == "ext" and e.name.endswith("::load")]
            cmpd = [d_ for d_ in v.decisions if d_[0].op in ("ne", "eq") and loads and any(x == loads[0].ret.e for x in d_[0].args)]
            if v.status == "diverged":
                npan += 1
                c = cmpd[-1] if cmpd else None
                mism = c is not None and ((c[0].op == "ne" and c[1] == 1) or (c[0].op == "eq" and c[1] == 0))
                notunw = any(d_[0].op == "ret" and d_[0].args[0] == "std::thread::panicking" and d_[1] == 0 for d_ in v.decisions)
                dv = [e for e in v.trace if e.kind == "diverge"]
                # everything handed to the diverging call: the formatted message of panic!, or the two operands assert_eq!/assert_ne! pass
                # by reference (which the panic message prints as left/right)
                lv, strs, callees = set(), set(), set()
                for a_ in (dv[-1].args if dv else []) or []:
                    for x_ in _leaf_values(a_):
                        l_, s_, c_ = deps(v, x_.e)
                        lv |= l_ | {x_.e}
                        strs |= s_
                        callees |= c_
                other = [x for x in c[0].args if x != loads[0].ret.e][0] if c else None
                has_both = "std::sync::atomic::Atomic::<usize>::load" in callees and other is not None and any(
                    l == other or (other.op in ("deref", "ref") and l in deps(v, other)[0]) for l in lv | {other})
                ck.ob("R6.5", "verifier-drop/panics-iff-mismatch-and-not-unwinding", tm.target, mism and notunw,
                      "panic path: on the mismatch edge: %s; on the not-panicking edge: %s" % (mism, notunw), where(dv[-1]) if dv else None)
                ck.ob("R6.5", "verifier-drop/message-names-both-numbers", tm.target, has_both,
                      "the panic message's arguments derive from the loaded count (%s) and the expected count (%s)" % (
                          "std::sync::atomic::Atomic::<usize>::load" in callees, fmt(other, 4) if other is not None else None), where(dv[-1]) if dv else None)
            elif v.status == "returned" and loads and cmpd:
                c = cmpd[-1]
                equal = (c[0].op == "ne" and c[1] == 0) or (c[0].op == "eq" and c[1] == 1)
                unw = any(d_[0].op == "ret" and d_[0].args[0] == "std::thread::panicking" and d_[1] == 1 for d_ in v.decisions)
                ck.ob("R6.5", "verifier-drop/silent-only-when-equal-or-unwinding", tm.target, equal or unw,
                      "returning path with a counter: equal edge: %s, already unwinding: %s" % (equal, unw))
        ck.floor("R6.5", "verifier-drop/panic-paths", npan, 1)
    g = guard_roles(tm)
    nst = 0
    for p in tm.install_roots():
        f = tm.facts.fns[p]
        if not any(roles.mentions_type(i, vtypes) for i in f["inputs"]):
            continue
        for v in tm.variants(p):
            pv = [e for e in v.trace if e.kind == "vec_push" and isinstance(e.args[1], Opaque) and e.args[1].ty and roles.mentions_type(e.args[1].ty, vtypes)]
            eff = [e for e in v.trace if is_effect(e)]
            if v.status == "returned" or eff:
                nst += 1
                ok = len(pv) == 1 and (not eff or pv[0].idx < min(e.idx for e in eff))
                ck.ob("R6.6", "%s/verifier-stored-before-install" % short(p), tm.target, ok,
                      "verifier pushes on this path: %d (before the first effect: %s)" % (len(pv), ok), where(pv[0]) if pv else None)
    ck.floor("R6.6", "paths-storing-the-verifier", nst, 1)
    # R6.7 the count an installation is judged on starts at zero (shared with C07 R7.1)
    from .c07 import install_resets_counter, verdict_under_lock, verifiers_kept_until_scope_exit
    install_resets_counter(ck, tm, "R6.7")
    # R6.8 ... and is read for the verdict while the injector lock is still held (shared with C07 R7.3)
    verdict_under_lock(ck, tm, "R6.8")
    verifiers_kept_until_scope_exit(ck, tm, "R6.8")


def counting_fakes_hand_out_their_counter(ck, tm, tier, ws, rule):
    """Every fake! arm whose generated function counts calls on a static returns a verifier that carries that very static (and the
    budget) - R6.4. Repeated by C07: the per-installation reset in the library reaches a counter only through the verifier, so a
    counting arm that hands out a counter-less verifier is never reset. Returns the number of arms decided."""
    hm = mac.get(ws, tm.facts, tier)
    vtypes = roles.verifier_types(tm.facts)
    n = 0
    for mod, d in hm.modules("fake"):
        arm = d["arm"]
        if not hm.accepted(mod):
            continue
        fake = mod + "::instantiate::fake"
        counters = set()
        for v in hm.variants(fake):
            for e in rmw_events(v):
                counters.add(static_of(e.args[0]))
        if not counters:
            continue
        n += 1
        key = "arm%02d[%s]/%s" % (arm.index, arm.label(), d["shape"]["name"])
        for v in hm.variants(mod + "::instantiate"):
            if v.status != "returned":
                continue
            ver = None
            if isinstance(v.ret, Tup):
                for x in v.ret.elems:
                    if isinstance(x, Adt) and any(x.path.split("::")[-1] == vt.split("::")[-1] for vt in vtypes):
                        ver = x
            ok = ver is not None and len(ver.fields) >= 1 and static_of(ver.fields[0]) in counters and len(counters) == 1
            ck.ob(rule, "%s/counting-fake-hands-out-its-counter" % key, tm.target, ok,
                  "the generated fake counts on %s; the verifier returned with it is %s" % (sorted(c for c in counters if c), ver),
                  "src/interface/macros.rs:%d" % arm.line)
    return n


def _leaf_values(a, depth=0):
    """Int / Opaque values reachable from an argument through references and aggregate fields."""
    from ..interp import Ref, Adt, Tup
    if depth > 4:
        return
    if isinstance(a, (Int, Opaque)):
        yield a
    elif isinstance(a, Ref):
        try:
            yield from _leaf_values(get_path(a.cell.val, a.path), depth + 1)
        except Exception:
            return
    elif isinstance(a, Adt):
        for f in a.fields:
            yield from _leaf_values(f, depth + 1)
    elif isinstance(a, Tup):
        for f in a.elems:
            yield from _leaf_values(f, depth + 1)


def hm_times():
    return 3
