"""C03 — installing and removing fakes touches nothing but the designated entries."""
from .common import *
from .codewrite import *
from .lifecycle import *
from ..facts import RAW_WRITE_FNS
from . import scans

PER_TARGET = True      # every rule below looks at one target configuration at a time (check.py may fork one worker per target)
USES_CONTROLS = True
DECIDED = ("R3.1 who-may-write: every raw-memory write in the crate (raw copy/write primitives, stores through raw pointers, inline asm, foreign "
           "calls) is enumerated on every analysed target and must belong to the allow-list {the code copy, the byte reader's copy into its own "
           "buffer, the platform FFI table, the dsb/isb barrier}; R3.2 the copy is exact (count == len of the very slice whose pointer is the "
           "source); R3.3 in every variant of every install root and of the guard destructor each code write targets the faked function's "
           "entry, the mapping allocated by the same installation, or the guard's saved address; R3.4 entry writes are at most 16 bytes; "
           "R3.6 exactly one mapping per installation (none on 32-bit ARM); R3.7 the release primitive is called only on the allocator's reject edge "
           "and in the guard's destructor, each time with the very mapping the injector obtained; R3.8 the guard stored by an installation "
           "restores at the address, and as many bytes as, the installation wrote (removal touches the designated entry only); R3.9 (Linux, Windows) "
           "every protection change on an install or restore path requests a constant that keeps the page readable and executable - the page "
           "also holds the entry's neighbours, which other threads may be executing while the patch is written")
NOT_DECIDED = "effects inside the OS calls; identical-code folding by the linker (two functions sharing one address)"

FFI_ALLOWED = {
    "linux": {"libc::mmap", "libc::munmap", "libc::mprotect", "libc::sysconf", "injector_core::linuxapi::__clear_cache"},
    "macos": {"libc::mmap", "libc::munmap", "libc::sysconf", "libc::pthread_jit_write_protect_np", "mach2::vm::mach_vm_remap",
              "mach2::vm::mach_vm_protect", "injector_core::macosapi::sys_dcache_flush", "injector_core::macosapi::sys_icache_invalidate",
              "mach2::traps::mach_task_self", "mach2::traps::mach_task_self_"},
    "windows": {"injector_core::winapi::VirtualAlloc", "injector_core::winapi::VirtualFree", "injector_core::winapi::VirtualProtect",
                "injector_core::winapi::FlushInstructionCache", "injector_core::winapi::GetCurrentProcess", "injector_core::winapi::GetSystemInfo"},
}
ASM_ALLOWED = ("dsb sy", "isb")


def static_write_sites(tm):
    return scans.static_write_sites(tm.facts)


def run(ck, models, tier):
    ck.decided, ck.not_decided = DECIDED, NOT_DECIDED
    ck.trusted += ["rustc MIR", "std models", "the OS honours the FFI calls as documented"]
    for tm in models:
        g = guard_roles(tm)
        roots = patches.roots_and_roles(tm)
        ck.floor("R3.3", "public-install-roots", len(roots), 6, tm.target)
        # ---------------- R3.3 / R3.2 / R3.4 / R3.6 over traces
        covered_sites = set()
        n_writes = 0
        for p, func, repl, boolval in roots:
            rn = short(p)
            for v in tm.variants(p):
                cw = classify_writes(v, func)
                if tm.arch == "arm":
                    # the entry is the pointer with the Thumb bit cleared; decided per entry class below (exact bits)
                    cw = [(ev, "entry-arm", dst, real, alias) for ev, role, dst, real, alias in cw]
                for ev, role, dst, real, alias in cw:
                    n_writes += 1
                    covered_sites.add((fn_of_event(ev), ev.where()))
                    if role == "entry-arm":
                        continue
                    ck.ob("R3.3", "%s/destination/%s" % (rn, role if role != "other" else "UNDESIGNATED"), tm.target, role in ("entry", "trampoline"),
                          "code write of %s byte(s) to %s is classified as '%s'%s" % (
                              fmt(ev.extra["count"].e), fmt(dst.e, 4), role,
                              "" if role != "other" else " — neither the faked function's entry nor the mapping allocated by this installation"), where(ev))
                    sl = ev.extra.get("src_len")
                    cnt = ev.extra["count"]
                    ck.ob("R3.2", "%s/copy-exact" % rn, tm.target, sl is not None and same_expr(sl.e, cnt.e),
                          "copy count %s vs length of the source slice %s" % (fmt(cnt.e), fmt(sl.e) if sl is not None else "unknown"), where(ev))
                    if role == "entry":
                        ck.ob("R3.4", "%s/entry-length" % rn, tm.target, cnt.is_const() and cnt.cval() <= 16,
                              "entry write length %s (limit 16)" % fmt(cnt.e), where(ev))
                for ev in v.trace:
                    if ev.kind in ("raw_write_other", "raw_store"):
                        ck.ob("R3.1", "%s/other-raw-write/%s" % (rn, short(ev.name)), tm.target, False,
                              "raw memory write %s outside the allow-list" % ev, where(ev))
                    if ev.kind in ("raw_read", "raw_slice"):     # a raw slice can only receive a copy_from_slice, which is classified above
                        covered_sites.add((fn_of_event(ev), ev.where()))
                if tm.arch == "arm":
                    for ev, role, dst, real, alias in cw:
                        sl = ev.extra.get("src_len")
                        cnt = ev.extra["count"]
                        ck.ob("R3.2", "%s/copy-exact" % rn, tm.target, sl is not None and same_expr(sl.e, cnt.e),
                              "copy count %s vs length of the source slice %s" % (fmt(cnt.e), fmt(sl.e) if sl is not None else "unknown"), where(ev))
                        ck.ob("R3.4", "%s/entry-length" % rn, tm.target, cnt.is_const() and cnt.cval() <= 16, "entry write length %s (limit 16)" % fmt(cnt.e), where(ev))
                if v.status == "returned":
                    al_ = alloc_events(v)
                    na = len(al_)
                    most = 0 if tm.arch == "arm" else 1
                    ck.ob("R3.6", "%s/at-most-one-mapping-per-install" % rn, tm.target, na <= most,
                          "normal path performs %d allocation(s) (at most %d)" % (na, most))
                    # the mapping the guard will release is this installation's own allocation, or none at all
                    null_alloc = bool(al_) and any(c.op == "eq" and isinstance(al_[-1].ret, Int) and al_[-1].ret.e in c.args and any(
                        isinstance(x, E) and x.is_const() and x.val == 0 for x in c.args) for c in guards.true_conds(v.decisions))
                    if g.jit_ptr and not null_alloc:
                        for pev, gv, cont in pushed_guards(v, g.adt):
                            jp = guard_field(gv, None, g.jit_ptr)
                            own = isinstance(jp, Int) and ((jp.is_const() and jp.cval() == 0) or any(isinstance(a_.ret, Int) and same_expr(jp.e, a_.ret.e) for a_ in al_))
                            ck.ob("R3.7", "%s/guard-releases-own-mapping-or-nothing" % rn, tm.target, own,
                                  "the guard stored by this installation will release %s (allocations made here: %s)" % (
                                      fmt(jp.e, 4) if isinstance(jp, Int) else jp, [fmt(a_.ret.e, 3) for a_ in al_ if isinstance(a_.ret, Int)]), where(pev))
        if tm.arch == "arm":
            for p, func, repl, boolval in roots:
                for cls in ARM_CLASSES:
                    for v in arm_class_variants(tm, p, cls):
                        for ev in code_writes(v):
                            db = ev.extra["dst"].get_bits()
                            low = cls[1]
                            okaddr = db[0] == 0 and all(db[k] == low[k] for k in range(1, len(low))) and all(
                                isinstance(db[k], E) and db[k].op == "bit" and db[k].args[1] == k and same_expr(db[k].args[0], func.e) for k in range(len(low), len(db)))
                            ck.ob("R3.3", "%s/%s/destination/%s" % (short(p), cls[0], "entry" if okaddr else "UNDESIGNATED"), tm.target, okaddr,
                                  "class %s: code write targets %s the faked function's pointer with bit 0 cleared" % (cls[0], "exactly" if okaddr else "something other than"), where(ev))
        if g.drop_fn:
            for v in tm.variants(g.drop_fn):
                for ev in code_writes(v):
                    n_writes += 1
                    covered_sites.add((fn_of_event(ev), ev.where()))
                    ok = g.addr is not None and self_field(resolve_alias(v, ev.extra["dst"])[0].e) == g.addr
                    ck.ob("R3.3", "guard-drop/destination", tm.target, ok,
                          "restore write targets %s (expected the guard's saved address self.%s)" % (fmt(ev.extra["dst"].e, 3), g.addr), where(ev))
                    sl = ev.extra.get("src_len")
        ck.floor("R3.3", "code-writes-classified", n_writes, 7, tm.target)
        # ---------------- R3.1 static enumeration
        sites = static_write_sites(tm)
        n_raw = 0
        for fn, kind, name, t in sites:
            sp = t.get("span") if isinstance(t, dict) else None
            w = "%s:%d" % (sp["file"], sp["line"]) if sp else None
            if sp and sp.get("callsite") and not sp["file"].startswith("src/"):
                w = "%s:%d" % (sp["callsite"]["file"], sp["callsite"]["line"])
            if kind == "ffi":
                ok = name in FFI_ALLOWED.get(tm.os, set())
                ck.ob("R3.1", "ffi/%s/%s" % (tm.os, short(name)), tm.target, ok,
                      "foreign call %s in %s %s the platform table" % (name, short(fn), "is in" if ok else "is NOT in"), w)
            elif kind == "asm":
                parts = [x.strip() for x in name.replace("\n", ";").split(";") if x.strip()]
                ok = all(p in ASM_ALLOWED for p in parts)
                ck.ob("R3.1", "asm/%s" % short(fn), tm.target, ok, "inline asm %r in %s %s" % (name, short(fn), "is a barrier" if ok else "is NOT in the allow-list"), w)
            elif kind == "rawfn":
                n_raw += 1
                ok = (fn, w) in covered_sites
                ck.ob("R3.1", "raw-copy/%s/%s" % (short(fn), "classified" if ok else "UNCLASSIFIED"), tm.target, ok,
                      "%s in %s %s" % (name, short(fn), "is reached by the analysed roots and classified by R3.3/R2.1" if ok else
                                       "is not reached by any analysed install root or destructor: an unclassified raw write"), w)
            elif kind == "rawstore":
                ck.ob("R3.1", "raw-store/%s" % short(fn), tm.target, False, "%s in %s: a store through a raw pointer outside the allow-list" % (name, short(fn)), w)
            elif kind == "indirect":
                ck.ob("R3.1", "indirect-call/%s" % short(fn), tm.target, False, "indirect call in %s: callee unknown, could write anywhere" % short(fn), w)
        ck.floor("R3.1", "raw-copy-sites", n_raw, 1, tm.target)       # at least the code copy itself (the byte reader need not use a raw-write primitive)
        # ---------------- R3.9 functions that were not named keep running: a protection change made on the way to (or back from) a patch never
        # takes execute or read permission away from the page - the page also holds the entry's neighbours, and other threads are executing them
        if tm.os in ("linux", "windows"):
            n_prot = 0
            fns_ = [p for p, _, _, _ in roots] + ([g.drop_fn] if g.drop_fn else [])
            for p in fns_:
                for v in tm.variants(p):
                    for ev in v.trace:
                        if ev.kind == "ffi" and ev.name in ("libc::mprotect", "injector_core::winapi::VirtualProtect"):
                            n_prot += 1
                            pv = ev.args[2]
                            const_ = isinstance(pv, Int) and pv.is_const()
                            val = pv.cval() if const_ else None
                            keeps = const_ and ((val & 5) == 5 if tm.os == "linux" else val in (0x20, 0x40, 0x80))
                            if not const_ and isinstance(pv, Int) and pv.e.op == "out" and pv.e.args[0] == "injector_core::winapi::VirtualProtect" and pv.e.args[2] == 3:
                                keeps = True         # the previous protection of the page, as reported by an earlier VirtualProtect: the page held running code
                            ck.ob("R3.9", "%s/%s/keeps-read-execute" % (tm.os, short(ev.name)), tm.target, keeps,
                                  "protection change in %s (reached from %s) requests %s: the page %s readable and executable for the code around the entry" % (
                                      short(fn_of_event(ev)), short(p), ("%#x" % val) if const_ else fmt(pv.e, 3) if isinstance(pv, Int) else pv,
                                      "stays" if keeps else "does NOT provably stay"), where(ev))
            ck.floor("R3.9", "protection-changes-checked", n_prot, 7, tm.target)
        # ---------------- R3.7 nothing but the injector's own mappings is ever unmapped
        release_rules(ck, tm, g, "R3.7")
        # ---------------- R3.8 removal touches the designated entry only: the guard restores where (and as much as) the install wrote
        if g.adt and g.addr:
            restore_lands_on_entry(ck, tm, g, "R3.8", patches.roots_and_roles(tm))
        if g.drop_fn and tm.arch != "arm":
            for v in tm.variants(g.drop_fn):
                for f in [e for e in v.trace if e.kind == "ffi" and e.name in FREE_FFI]:
                    okp = isinstance(f.args[0], Int) and self_field(f.args[0].e) == g.jit_ptr
                    if tm.os == "windows":
                        oks = f.args[1].is_const() and f.args[1].cval() == 0           # MEM_RELEASE frees the whole reservation
                    else:
                        oks = g.jit_size is not None and isinstance(f.args[1], Int) and self_field(f.args[1].e) == g.jit_size
                    ck.ob("R3.7", "guard-drop/releases-own-mapping", tm.target, okp and oks,
                          "destructor releases (%s, %s) (expected (self.%s, self.%s), which C12 R12.1 ties to this installation's allocation: a longer "
                          "length unmaps whatever lies behind the trampoline)" % (fmt(f.args[0].e, 3), fmt(f.args[1].e, 4), g.jit_ptr, g.jit_size), where(f))
        for key, m in list(tm.machines.items()):
            for f in m.entered:
                ck.analysed_fn(tm.target, f)
    for kind in ("rawstore", "rawfn", "ffi", "indirect", "asm"):
        scans.control(ck, ck.ws, "R3.1", "raw-write-construct/%s" % kind, lambda f, k=kind: [x for x in scans.static_write_sites(f) if x[1] == k])
