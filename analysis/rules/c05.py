"""C05 — a panic while fakes are installed still restores, unlocks and never aborts."""
import os
from .common import *
from .codewrite import *
from .lifecycle import *
from .c04 import lock_holders, aggregate_sites
from . import scans

PER_TARGET = True      # every rule below looks at one target configuration at a time (check.py may fork one worker per target)
USES_CONTROLS = True
DECIDED = ("MIR makes unwinding explicit, so each clause is a path property: R5.1 lock poison is swallowed (C04 R4.2) and no unwrap/expect is "
           "applied to a LockResult, and the lock is never taken through try_lock; R5.2 in every destructor of the crate a diverging path is either on the not-panicking edge of "
           "std::thread::panicking() or one of the tabulated environment faults (protection change refused, cache flush refused, saved-bytes "
           "bound) — so pending expectations raise at most one panic; R5.3 in the checked install roots the refusal (signature mismatch, "
           "not-bool) and the null check of the FuncPtr constructor precede every allocation and write and their failing edge diverges "
           "without effects; R5.4 no diverging path of an install root has written the function entry, except a flush refusal after a "
           "complete, correct write; R5.5 no mem::forget / ManuallyDrop / catch_unwind / abort / exit call site, no non-cleanup call whose "
           "unwind action is `terminate`, no `panic = \"abort\"` profile; restore-then-unlock on unwinding by C04 R4.5 and rustc's drop "
           "elaboration; R5.7 the only other process-global state, the call counters, is reset on the way into every installation (C07 R7.1), so "
           "a lifetime that ended by unwinding leaves nothing behind for the next one; R5.8 on every path of an install root a restore guard is "
           "constructed only after a write at its address has succeeded (so a refused installation unwinds with no guard for the refused "
           "target: the guard's destructor would repeat the refused protection change and panic during unwinding); R5.9 every returning path "
           "of the restore guard's destructor performs the restoring write - there is no edge (std::thread::panicking() in particular) on "
           "which it returns without restoring; R5.10 the trampoline allocator returns only a mapping it accepted, releases what it "
           "rejects and otherwise diverges (an exhausted search is one clean panic, not a dangling pointer or an endless retry); R5.11 no code write can fault: every entry write and the destructor's restoring write is preceded on its own path "
           "by a protection change covering it (a refused or skipped protection change followed by the write is a SIGSEGV, not a panic); R5.12 the guard "
           "restores at the address and with the length the installation wrote, so the destructor never asks for more pages than the install obtained")
NOT_DECIDED = ("aborts caused by allocation failure inside std; panics inside a user fake with a non-unwinding ABI (excluded by the property)")

ABORTING = ("std::process::abort", "std::process::exit", "std::panic::catch_unwind", "std::intrinsics::abort", "core::intrinsics::abort",
            "std::mem::forget", "std::panic::resume_unwind")
ENV_FAULT_SOURCES = PROTECT_FFI + ("injector_core::winapi::FlushInstructionCache",)


def null_refused_at_construction(ck, tm, rule):
    """The public handle type that wraps the internal function pointer is built at one site, its fields are private, and that
    constructor returns only on the non-null edge of a null test whose other edge diverges without effects (shared by C09 R9.4)."""
    fp = [(p_, a) for p_, a in tm.facts.adts.items() if a["vis"] == "Public" and len(a["variants"]) == 1 and any(
        f_["ty"].get("path", "").endswith("FuncPtrInternal") for f_ in a["variants"][0]["fields"])]
    n = 0
    for adt, a in fp:
        sites = aggregate_sites(tm, adt)
        ck.ob(rule, "%s/single-construction-site" % short(adt), tm.target, len(sites) == 1, "%d construction site(s) of %s" % (len(sites), short(adt)))
        vis = [f_["vis"] for f_ in a["variants"][0]["fields"]]
        ck.ob(rule, "%s/fields-not-public" % short(adt), tm.target, all(v != "Public" for v in vis), "field visibilities %s" % vis)
        for fn, st in sites:
            n += 1
            vs = tm.try_variants(fn) or []
            okr = all(any(c.op in ("ne", "nonnull") for c in guards.true_conds(v.decisions)) for v in vs if v.status == "returned")
            okd = any(v.status == "diverged" and not any(is_effect(e) for e in v.trace) for v in vs)
            ck.ob(rule, "%s/null-refused" % short(adt), tm.target, bool(vs) and okr and okd,
                  "%s: every returning path is on the non-null edge: %s; the null edge diverges: %s" % (short(fn), okr, okd),
                  "%s:%d" % (st["span"]["file"], st["span"]["line"]))
    return n


def guard_only_after_entry_write(ck, tm, g_, roots, rule):
    """A restore guard is constructed only after the entry write it will undo has succeeded on that path (C05 R5.8; repeated by C04:
    a guard that is alive while the first write can still be refused turns that refusal into a panic inside a destructor during
    unwinding - an abort, after which no waiting thread ever gets its turn)."""
    from .roles import get_by_path
    n58 = 0
    if g_.adt and g_.addr:
        for p, func, repl, boolval in roots:
            rn = short(p)
            for v in tm.variants(p):
                for path, tl, span, val in v.constructed:
                    if path != g_.adt:
                        continue
                    n58 += 1
                    try:
                        addr = get_by_path(val, g_.addr)
                    except Exception:
                        addr = None
                    wr = [ev for ev in code_writes(v) if ev.idx < tl and isinstance(addr, Int) and
                          (same_expr(resolve_alias(v, ev.extra["dst"])[0].e, addr.e) or same_expr(ev.extra["dst"].e, addr.e))]
                    ck.ob(rule, "%s/guard-built-after-entry-write" % rn, tm.target, bool(wr),
                          "restore guard for %s is constructed %s" % (fmt(addr.e, 3) if isinstance(addr, Int) else "?",
                              "after the entry write succeeded" if wr else "BEFORE any write at that address has succeeded on this path "
                              "(path %s): if the write is refused (protection change fails) the panic unwinds through the live guard, whose "
                              "destructor attempts the same protection change, is refused again and panics inside a destructor during "
                              "unwinding - the process aborts" % v.status),
                          "%s:%s" % (span["file"], span["line"]) if span else None)
        ck.floor(rule, "guard-constructions-on-install-paths", n58, 6, tm.target)
    return n58


PAGE_SIZE_SOURCES = ("libc::sysconf",)


def only_page_size(e):
    """Is every leaf of the expression a constant or the result of the page-size query?"""
    if not isinstance(e, E):
        return True
    if e.op == "const":
        return True
    if e.op == "ret":
        return e.args[0] in PAGE_SIZE_SOURCES
    if not e.args or e.op in ("leaf", "field", "mem", "fnaddr", "deref", "ref"):
        return False
    return all(only_page_size(a) for a in e.args if isinstance(a, E))


def run(ck, models, tier):
    ck.decided, ck.not_decided = DECIDED, NOT_DECIDED
    ck.trusted += ["rustc MIR: elaborated drops and cleanup blocks", "std::thread::panicking() is true while unwinding", "std models"]
    for tm in models:
        # ---------------- R5.1
        sites = scans.unwrap_on_lock_result(tm.facts)
        for fn, name, t in sites:
            ck.ob("R5.1", "unwrap-on-lock-result/%s" % short(fn), tm.target, False,
                  "%s applies %s to a LockResult: a poisoned lock would panic (and abort if already unwinding)" % (fn, name.split("::")[-1]),
                  "%s:%d" % (t["span"]["file"], t["span"]["line"]))
        ck.ob("R5.1", "no-unwrap-on-lock-result", tm.target, not sites, "%d unwrap/expect call sites on a LockResult" % len(sites))
        # a hand-written try_lock path is where a poisoned-but-free mutex is mishandled (its Err carries the acquired guard): the
        # process-wide guard is only ever taken through lock() (shared with C04 R4.1)
        tl = scans.try_lock_sites(tm.facts)
        for fn, name, t in tl:
            ck.ob("R5.1", "try_lock/%s" % short(fn), tm.target, False,
                  "%s calls %s: after a lifetime that ended by a panic the mutex is poisoned, try_lock then returns Err(Poisoned(guard)) *holding the "
                  "lock*; any fallback that locks again deadlocks and every later injector or preventer hangs" % (fn, short(name)),
                  "%s:%d" % (t["span"]["file"], t["span"]["line"]))
        ck.ob("R5.1", "no-try_lock", tm.target, not tl, "%d try_lock call sites" % len(tl))
        for wfn in sorted({b["path"] for b in tm.facts.fn_bodies() for name, _, _, _ in tm.facts.callees_of(b) if is_std_lock(name)}):
            vs = tm.try_variants(wfn)
            ok = bool(vs) and all(v.status == "returned" for v in vs)
            ck.ob("R5.1", "%s/poison-swallowed" % short(wfn), tm.target, ok,
                  "%s: %d path(s), all return a guard: %s" % (short(wfn), len(vs or []), ok))
        lock_wrapper_cannot_panic(ck, tm, "R5.1")
        # ---------------- R5.2 destructors
        drops = tm.drop_impls()
        ck.floor("R5.2", "drop-impls", len(drops), 2, tm.target)
        for adt, p in drops:
            try:
                vs = tm.variants(p)
            except Exception:
                try:
                    vs = tm.variants(p, tag="havoc", havoc_loops=True)
                except Exception as e:
                    ck.ob("R5.2", "%s/analysable" % short(adt or p), tm.target, False, "destructor %s cannot be analysed: %s" % (p, e))
                    continue
            for key, m in list(tm.machines.items()):
                if key[0] == p:
                    for f in m.entered:
                        ck.analysed_fn(tm.target, f)
            ndiv = 0
            for v in vs:
                if v.status != "diverged":
                    continue
                ndiv += 1
                guarded = any(d[0].op == "ret" and d[0].args[0] == "std::thread::panicking" and d[1] == 0 for d in v.decisions)
                last = v.decisions[-1] if v.decisions else None
                env = False
                src = None
                if last is not None:
                    lv, strs, callees = deps(v, last[0])
                    srcs = [c for c in callees if c in ENV_FAULT_SOURCES]
                    env = bool(srcs)
                    src = srcs[0] if srcs else None
                dv = [e for e in v.trace if e.kind == "diverge"]
                wh = where(dv[-1]) if dv else None
                if guarded:
                    ck.ob("R5.2", "%s/panic-only-when-not-unwinding" % short(adt), tm.target, True,
                          "panic in the destructor of %s lies on the false edge of std::thread::panicking()" % short(adt), wh)
                elif env:
                    ck.ob("R5.2", "%s/environment-fault/%s" % (short(adt), short(src)), tm.target, True,
                          "destructor of %s diverges only because %s reported failure (tabulated environment fault)" % (short(adt), short(src)), wh)
                else:
                    ck.ob("R5.2", "%s/unguarded-panic" % short(adt), tm.target, False,
                          "the destructor of %s can panic (%s) on a path that does not test std::thread::panicking(): during unwinding this is a "
                          "second panic, i.e. a process abort [%s]" % (short(adt), v.note, fmt_dec(v)), wh)
            # rustc-inserted assertion terminators reachable in the destructor (each is a potential panic while unwinding)
            mkey = [k_ for k_ in tm.machines if k_[0] == p]
            kinds = {}
            conds = {}
            for k_ in mkey:
                for note in tm.machines[k_].notes:
                    if note[0] == "assert":
                        kinds.setdefault(note[1], set()).add(short(note[2]))
                        conds.setdefault(note[1], []).append(note[3] if len(note) > 3 else None)
            benign = ("Overflow", "MisalignedPointerDereference", "NullPointerDereference")
            for kind, fns in sorted(kinds.items()):
                okk = kind in benign
                if kind in ("DivisionByZero", "RemainderByZero") and all(c_ is not None and only_page_size(c_) for c_ in conds[kind]):
                    okk = True          # x / page_size, x % page_size: the system's page size is not zero (tabulated environment fact)
                ck.ob("R5.2", "%s/assertion/%s" % (short(adt), kind), tm.target, okk,
                      "destructor of %s reaches a non-constant `%s` assertion in %s: %s" % (
                          short(adt), kind, sorted(fns),
                          "address arithmetic / pointer checks of debug builds, unreachable for user-space addresses (tabulated)" if okk else
                          "a failing assertion here panics inside a destructor, which aborts the process when it runs during unwinding"))
            for v in vs:
                for ev in v.trace:
                    if ev.kind == "bounds_check":
                        ck.ob("R5.2", "%s/environment-fault/saved-bytes-bound" % short(adt), tm.target, True,
                              "slice bound self.saved[..len] in the destructor (cannot fail: C02 R2.1 gives saved >= len)", where(ev))
                        break
                else:
                    continue
                break
        # ---------------- R5.6 unwinding out of the injector's own destructor still restores newest-first
        g_ = guard_roles(tm)
        if g_.adt:
            inj_, field_, idx_, kind_ = injector_adt(tm, g_.adt)
            if inj_:
                order, why, wh, dfn = teardown_order(tm, inj_, field_, g_.adt)
                ins, _sites = insertion_discipline(tm, g_.adt)
                ok = (ins == {"append"} and order == "lifo") or (ins == {"prepend"} and order == "fifo")
                ck.ob("R5.6", "restore-order-survives-a-panic-at-scope-exit", tm.target, ok,
                      "teardown of %s.%s: %s (a panic raised while guards are still stored hands them to the drop glue, which would "
                      "restore oldest-first and leave a function faked twice un-restored)" % (short(inj_), field_, why), wh)
            # ---------------- R5.9 unwinding restores: the guard's destructor restores on every returning path, the panicking() edge included
            if g_.drop_fn:
                destructor_always_restores(ck, tm, g_, "R5.9")
        # ---------------- R5.10 an installation that cannot obtain memory fails with one panic: the allocator returns only accepted
        # mappings and its only other exit diverges (C11 R11.1-R11.3, R11.5 repeated)
        if tm.arch != "arm":
            from .c11 import allocator_obligations
            allocator_obligations(ck, tm, lambda r: "R5.10")
        # ---------------- R5.11 "never a process abort": no code write can fault - each entry write and the destructor's restoring write is
        # preceded on its own path by a protection change that covers it (C01 R1.3 on install and restore paths)
        k11 = write_protection_obligations(ck, tm, g_, "R5.11")
        ck.floor("R5.11", "code-writes-checked-for-protection", k11, 7, tm.target)
        # ---------------- R5.12 the destructor's protection change is tabulated as an environment fault only because it asks for what the
        # installation already obtained: the guard restores at the address, and as many bytes as, the installation wrote (C03 R3.8) - a wider
        # restore can be refused where the install was not, and that panic comes out of a destructor
        if g_.adt:
            k12 = restore_lands_on_entry(ck, tm, g_, "R5.12", patches.roots_and_roles(tm))
        # ---------------- R5.7 no call-count state survives a lifetime that ended by unwinding: counters restart at every installation
        from .c07 import install_resets_counter
        install_resets_counter(ck, tm, "R5.7")
        # ---------------- R5.3 refusal before effects
        roots = patches.roots_and_roles(tm)
        checked = 0
        for p, func, repl, boolval in roots:
            body = tm.facts.body(p)
            f = tm.facts.fns[p]
            vs = tm.variants(p)
            m = tm.machines[(p, None)]
            args = tm.root_args(m, body)
            sigs = []

            def collect(v):
                if isinstance(v, Opaque) and v.ty and v.ty.get("k") == "ref" and v.ty["inner"]["k"] == "str":
                    sigs.append(v.e)
                elif isinstance(v, Adt):
                    for x in v.fields:
                        collect(x)
            for a in args:
                collect(a)
            if f["unsafe"]:
                continue          # unchecked flavours have no gate by contract
            # does this root go through another checked root? (will_execute -> will_execute_raw): the gate is inherited
            checked += 1
            rn = short(p)
            for v in vs:
                eff = [e for e in v.trace if is_effect(e)]
                if not eff:
                    continue
                first = min(e.idx for e in eff)
                gates = [d for d in v.decisions if d[4] <= first and any(s in deps(v, d[0])[0] for s in sigs)]
                ck.ob("R5.3", "%s/refusal-dominates-effects" % rn, tm.target, bool(gates),
                      "path with effects (first: %s) is %s by a signature test" % (short(eff[0].name), "dominated" if gates else "NOT dominated"), where(eff[0]))
            ref = [v for v in vs if v.status == "diverged" and not any(is_effect(e) for e in v.trace)]
            ck.ob("R5.3", "%s/refusal-diverges-without-effects" % rn, tm.target, bool(ref), "%d refusing path(s) without any effect" % len(ref))
        ck.floor("R5.3", "checked-install-roots", checked, 4, tm.target)
        # FuncPtr constructor: null refused at construction
        null_refused_at_construction(ck, tm, "R5.3")
        # ---------------- R5.4 fail before write
        for p, func, repl, boolval in roots:
            rn = short(p)
            for v in tm.variants(p):
                if v.status != "diverged":
                    continue
                cw = classify_writes(v, func)
                if tm.arch == "arm":
                    cw = [(ev, "entry", d, r, a) for ev, _, d, r, a in cw]
                ent = [c for c in cw if c[1] == "entry"]
                if not ent:
                    ck.ob("R5.4", "%s/fail-before-entry-write" % rn, tm.target, True, "diverging path (%s) leaves the function untouched" % v.note)
                    continue
                last = v.decisions[-1] if v.decisions else None
                callees = deps(v, last[0])[2] if last else set()
                flush = any(c.endswith("FlushInstructionCache") for c in callees) and last[4] > ent[-1][0].idx
                ck.ob("R5.4", "%s/%s" % (rn, "flush-refused-after-complete-write" if flush else "fails-after-entry-write"), tm.target, flush,
                      "a path diverges after writing the entry: %s" % ("the cache flush primitive reported failure after the complete write (tabulated)" if flush
                                                                        else "the function is left patched with no guard to restore it [%s]" % fmt_dec(v)),
                      where(ent[-1][0]))
        # ---------------- R5.8 a restore guard exists only for a target whose entry has been written on this path
        # (premise of R5.2's tabulated environment faults: the guard's destructor repeats the protection change and the write; if
        # the guard is alive while the first attempt can still be refused, unwinding from that refusal runs the destructor into
        # the same refusal - a second panic, i.e. an abort)
        guard_only_after_entry_write(ck, tm, g_, roots, "R5.8")
        # ---------------- R5.5
        ab = scans.abort_sites(tm.facts) + scans.forget_sites(tm.facts)
        for fn, name, t in ab:
            ck.ob("R5.5", "aborting-or-forgetting-call/%s/%s" % (short(fn), short(name)), tm.target, False,
                  "%s calls %s" % (fn, name), "%s:%d" % (t["span"]["file"], t["span"]["line"]))
        te = scans.terminating_unwind_edges(tm.facts)
        for fn, t in te:
            ck.ob("R5.5", "unwind-terminates/%s" % short(fn), tm.target, False,
                  "a call in %s has unwind action `terminate`: a panic passing through it aborts the process" % fn)
        ck.ob("R5.5", "no-abort-forget-catch", tm.target, not ab, "%d call sites of abort/exit/catch_unwind/forget/ManuallyDrop" % len(ab))
        ck.ob("R5.5", "no-terminating-unwind-edges", tm.target, not te, "%d non-cleanup terminators with unwind=terminate" % len(te))
    # Cargo.toml profile
    try:
        import tomllib
        from .. import extract
        with open(os.path.join(extract.REPO, "Cargo.toml"), "rb") as f:
            ct = tomllib.load(f)
        bad = [k for k, v in (ct.get("profile") or {}).items() if isinstance(v, dict) and v.get("panic") == "abort"]
        ck.ob("R5.5", "no-panic-abort-profile", "*", not bad, "Cargo.toml profiles with panic = \"abort\": %s" % bad)
    except Exception as e:
        ck.ob("R5.5", "no-panic-abort-profile", "*", False, "cannot read Cargo.toml: %s" % e)
    scans.control(ck, ck.ws, "R5.1", "unwrap-on-LockResult", scans.unwrap_on_lock_result)
    scans.control(ck, ck.ws, "R5.1", "try_lock-call", scans.try_lock_sites)
    scans.control(ck, ck.ws, "R5.5", "abort-exit-catch_unwind-call", scans.abort_sites, 2)
    scans.control(ck, ck.ws, "R5.5", "forget-or-ManuallyDrop-call", scans.forget_sites, 2)
    scans.control(ck, ck.ws, "R5.5", "unwind-terminate-edge", scans.terminating_unwind_edges)

    def unguarded_drop_panic(f):
        from ..model import TargetModel
        t2 = TargetModel(f)
        out = []
        for adt, p_ in t2.drop_impls():
            for v in t2.variants(p_):
                if v.status == "diverged" and not any(d_[0].op == "ret" and d_[0].args[0] == "std::thread::panicking" for d_ in v.decisions):
                    out.append(p_)
        return out
    scans.control(ck, ck.ws, "R5.2", "unguarded-panic-in-destructor", unguarded_drop_panic)
