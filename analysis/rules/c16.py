"""C16 — 32-bit ARM patches (ARM and Thumb) load and branch to exactly the fake."""
from .common import *
from .codewrite import *
from . import patches

PER_TARGET = True      # every rule below looks at one target configuration at a time (check.py may fork one worker per target)
DECIDED = ("for every public install root, in each of the three entry classes (A32; T32 at 0 mod 4; T32 at 2 mod 4 — exhaustive for the "
           "code's own case split, the rest of the address symbolic): the 12 written bytes decode (independent A32/T32 tables) to "
           "NOP* ; LDR Rt,[pc,#imm] ; BX Rt where the word the load addresses (Align(PC,4)+imm inside the patch) is byte for byte the "
           "unmodified replacement pointer, Thumb bit kept (R16.1); the write/read address is the function pointer with bit 0 cleared "
           "(R16.2); saved length = written length = 12 at that address (R16.3); Rt is not a register the AAPCS requires a callee to "
           "preserve (R16.4); the restore guard records that same address and length, so the saved bytes go back to exactly the overwritten "
           "range (R16.5)"
           " Every returning path of an install root writes the function's entry; A32 instruction words must carry the condition AL.")
NOT_DECIDED = "that the core executes the halfwords as the table says; atomicity of the 12-byte write"

AAPCS_PRESERVED = {"r4", "r5", "r6", "r7", "r8", "r9", "r10", "r11", "sp", "lr", "r13", "r14"}


def run(ck, models, tier):
    ck.decided, ck.not_decided = DECIDED, NOT_DECIDED
    ck.trusted += ["rustc MIR", "A32/T32 decode tables in analysis/isa.py (Arm ARM DDI 0406 A8.8)", "std models"]
    ck.assumptions += ["A32 entries are 4-byte aligned, T32 entries 2-byte aligned (architectural)",
                       "r9 is treated as callee-saved (AAPCS v-register v6 unless the platform designates it otherwise; Linux/EABI does not)"]
    for tm in models:
        if tm.arch != "arm":
            continue
        recs = patches.analyse(tm)
        patches.missing_entry_writes(ck, "R16.1", tm, "arm")
        for key, m in tm.machines.items():
            for f in m.entered:
                ck.analysed_fn(tm.target, f)
        roots = sorted({r.root for r in recs})
        ck.floor("R16.0", "public-install-roots", len(roots), 6, tm.target)
        n = 0
        for r in recs:
            rn = short(r.root)
            cname = r.cls[0]
            v = r.variant
            if v.status != "returned":
                continue
            base = "%s/%s" % (rn, cname)
            if r.err is not None:
                ck.ob("R16.1", base + "/undecodable", tm.target, False, "patch bytes in class %s: %s" % (cname, r.err), where(r.ev))
                continue
            n += 1
            sim = r.sim
            mn = patches.mnemonics(sim)
            t = sim["transfer"]
            # R16.1 literal hit
            ok = False
            why = "no BX"
            if t and t["kind"] == "bx" and t["bits"] is not None:
                if r.repl is not None:
                    exp = tuple(r.repl.get_bits())
                    ok = tuple(t["bits"]) == exp
                    why = "word loaded into %s is %s (expected all 32 bits of %s, Thumb bit included)" % (t["reg"], fmt(from_bits(tuple(t["bits"])), 3), fmt(r.repl.e, 3))
                else:
                    val = from_bits(tuple(t["bits"]))
                    ok = val.op == "gamma" and val.args[1].op == "fnaddr" and val.args[2].op == "fnaddr"
                    why = "word loaded into %s is %s (address of one of two crate functions selected by the requested value; C10 checks which)" % (t["reg"], fmt(val, 4))
                ldr = [i for i in sim["executed"] if i["mn"] == "ldr_lit"]
                if ldr and t["reg"] != "pc" and "r%d" % ldr[0]["rt"] != t["reg"]:      # reg "pc": the load itself is the branch
                    ok = False
                    why += "; load and branch use different registers"
            ck.ob("R16.1", base + "/literal-hit", tm.target, ok, "class %s: executes %s; %s" % (cname, mn, why), where(r.ev))
            # the crate compiles for every `target_arch = "arm"`: the sequence must consist of encodings every such core decodes
            odd = [i["mn"] for i in sim["executed"] if i["mn"] not in ("nop", "ldr_lit", "bx", "mov_reg")]
            ck.ob("R16.1", base + "/baseline-encodings-only", tm.target, not odd,
                  "executed instructions outside the baseline (A32 / Thumb-1) subset: %s%s" % (
                      odd or "none", " - e.g. the NOP hint 0xBF00 exists from ARMv6T2 on and is UNDEFINED on Thumb-1 cores" if "nop_hint" in odd else ""), where(r.ev))
            # R16.2 patch address = function pointer with bit 0 cleared (Thumb) / unchanged (ARM)
            db = r.dst.get_bits()
            fb = None
            # the function pointer as abstracted for this class
            low = r.cls[1]
            b1 = low[1]
            okaddr = db[0] == 0 and all(db[k] == low[k] for k in range(1, len(low))) and all(
                isinstance(db[k], E) and db[k].op == "bit" and db[k].args[1] == k and same_expr(db[k].args[0], r.func.e) for k in range(len(low), len(db)))
            ck.ob("R16.2", base + "/patch-address", tm.target, okaddr,
                  "write address has bits (%s,%s,…) and bits 2.. %s those of the function pointer; expected the pointer with bit 0 cleared" % (
                      db[0], db[1], "are" if okaddr else "are NOT"), where(r.ev))
            # R16.3 saved = written = 12 at that address
            rd = [e for e in v.trace if e.kind == "raw_read"]
            cnt = r.ev.extra["count"]
            ok3 = len(rd) == 1 and rd[0].extra["count"].is_const() and cnt.is_const() and rd[0].extra["count"].cval() == cnt.cval() == 12 \
                and rd[0].extra["src"].get_bits() == db and rd[0].idx < r.ev.idx
            ck.ob("R16.3", base + "/saved-equals-written", tm.target, ok3,
                  "bytes saved: %s at %s before the write; bytes written: %s" % (
                      fmt(rd[0].extra["count"].e) if rd else "none", "the same address" if rd and rd[0].extra["src"].get_bits() == db else "ANOTHER address", fmt(cnt.e)),
                  where(r.ev))
            # R16.4 preserved registers
            wr = set(sim["written"])
            bad = sorted(wr & AAPCS_PRESERVED)
            state = "T32" if r.cls[2] else "A32"
            if bad:
                ck.ob("R16.4", "%s/scratch-register/%s" % (state, bad[0]), tm.target, False,
                      "%s entry sequence (%s) loads the destination into %s, which the AAPCS requires a callee to preserve: the caller's "
                      "%s is destroyed whenever a faked function is called" % (state, mn, ",".join(bad), ",".join(bad)), where(r.ev))
            else:
                ck.ob("R16.4", "%s/scratch-register" % state, tm.target, True, "%s entry sequence writes only %s" % (state, sorted(wr)), where(r.ev))
        ck.floor("R16.1", "decoded-entry-patches", n, 18, tm.target)
        # R16.5 the saved bytes go back to exactly the range that was overwritten: the guard records the patch address (Thumb bit cleared)
        from .lifecycle import guard_roles, restore_lands_on_entry
        g = guard_roles(tm)
        if g.adt and g.addr:
            restore_lands_on_entry(ck, tm, g, "R16.5", patches.roots_and_roles(tm))
        else:
            ck.ob("R16.5", "guard-roles", tm.target, False, "restore guard or its address field not identified: %s" % g.problems)
