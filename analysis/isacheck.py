"""`./verif selftest --isa` — cross-checks the three decode tables of analysis/isa.py against LLVM's disassembler (llvm-mc)
on a generated corpus of concrete encodings covering every table entry with varied fields. This validates the *checker's*
trusted tables; it does not look at the repository and decides no property."""
import subprocess, re, itertools, random, sys
from .expr import *
from . import isa


def llvm(triple, bs):
    txt = " ".join("0x%02x" % b for b in bs)
    r = subprocess.run(["llvm-mc-14", "--disassemble", "-triple=" + triple], input=txt, stdout=subprocess.PIPE, stderr=subprocess.PIPE, text=True)
    lines = [l.strip() for l in r.stdout.splitlines() if l.strip() and not l.strip().startswith(".")]
    return lines, r.stderr


def I8(bs):
    return [int_const(b, 8) for b in bs]


def num(s):
    s = s.strip().lstrip("#$")
    return int(s, 0)


X86R = {"rax": 0, "rcx": 1, "rdx": 2, "rbx": 3, "rsp": 4, "rbp": 5, "rsi": 6, "rdi": 7, "r8": 8, "r9": 9, "r10": 10, "r11": 11, "r12": 12,
        "r13": 13, "r14": 14, "r15": 15}
X86R32 = {"eax": 0, "ecx": 1, "edx": 2, "ebx": 3, "esp": 4, "ebp": 5, "esi": 6, "edi": 7}
X86R8 = {"al": 0, "cl": 1, "dl": 2, "bl": 3}


def x86_cases(rnd):
    cs = []
    for d in (0, 1, -1, 0x7fffffff, -0x80000000, rnd.randrange(-2**31, 2**31)):
        cs.append([0xE9] + list((d & 0xffffffff).to_bytes(4, "little")))
    for d in (0, -2, 127, -128):
        cs.append([0xEB, d & 0xff])
    for r in range(16):
        v = rnd.getrandbits(64)
        rex = 0x48 | (1 if r >= 8 else 0)
        cs.append([rex, 0xB8 + (r & 7)] + list(v.to_bytes(8, "little")))
        cs.append(([0x41] if r >= 8 else []) + [0xFF, 0xE0 + (r & 7)])
    for r in range(8):
        v = rnd.getrandbits(32)
        cs.append([0xB8 + r] + list(v.to_bytes(4, "little")))
        cs.append([0x48, 0xC7, 0xC0 + r] + list(v.to_bytes(4, "little")))
    for r in range(4):
        cs.append([0xB0 + r, rnd.getrandbits(8)])
        cs.append([0x31, 0xC0 + r * 9])
    cs += [[0xC3], [0x90]]
    for d in (0, 8, -14, 0x100):
        cs.append([0xFF, 0x25] + list((d & 0xffffffff).to_bytes(4, "little")))
    return cs


def judge_x86(bs, must_decode=True):
    if True:
        try:
            ins, used = isa.decode_x86(I8(bs))
        except isa.Undecodable as e:
            return None, not must_decode, "mine: undecodable %s" % e
        if not must_decode and (len(ins) != 1 or used != len(bs)):
            return None, True, "mine: not one whole instruction"
        lines, err = llvm("x86_64", bs)
        if len(lines) != 1 or len(ins) != 1 or used != len(bs):
            return "?", False, "count mismatch mine=%s llvm=%s" % (ins, lines)
        k, l = ins[0], lines[0]
        mn = l.split()[0]
        ok = False
        if k["mn"] == "jmp_rel":
            ok = mn == "jmp" and num(l.split()[1]) == k["imm"].sval()
        elif k["mn"] == "mov_imm":
            mx = re.match(r"xor[lq]\s+%(\w+), %(\w+)", l)
            m = re.match(r"(movabsq|movq|movl)\s+\$?(-?\w+), %(\w+)", l)
            if mx:
                ok = const_of(k["bits"]) == 0 and mx.group(1) == mx.group(2) and (X86R32.get(mx.group(1), X86R.get(mx.group(1))) == k["reg"])
            elif m:
                v = num(m.group(2))
                reg = m.group(3)
                if m.group(1) == "movl":
                    ok = X86R32.get(reg) == k["reg"] and const_of(k["bits"]) == (v & 0xffffffff)
                else:
                    ok = X86R.get(reg) == k["reg"] and const_of(k["bits"]) == (v & (2**64 - 1))
        elif k["mn"] == "mov_imm8":
            m = re.match(r"movb\s+\$(-?\w+), %(\w+)", l)
            ok = bool(m) and X86R8.get(m.group(2)) == k["reg"] and const_of(k["bits"]) == (num(m.group(1)) & 0xff)
        elif k["mn"] == "jmp_reg":
            m = re.match(r"jmpq\s+\*%(\w+)", l)
            ok = bool(m) and X86R.get(m.group(1)) == k["reg"]
        elif k["mn"] == "ret":
            ok = mn == "retq"
        elif k["mn"] == "nop":
            ok = mn == "nop"
        elif k["mn"] == "call_rel":
            ok = mn == "callq"
        elif k["mn"] == "jmp_mem_rip":
            m = re.match(r"jmpq\s+\*(-?\w+)?\(%rip\)", l)
            ok = bool(m) and num(m.group(1) or "0") == k["disp"]
        return k["mn"], ok, "mine=%s llvm=%s" % ({a: b for a, b in k.items() if a != "bits"}, l)


def check_x86(rnd):
    bad = []
    cases = x86_cases(rnd)
    n = len(cases)
    for bs, (mn, ok, why) in zip(cases, pmap(judge_x86, cases)):
        if not ok:
            bad.append((bs, why))
    near = []
    seen = {tuple(c) for c in cases}
    for bs in cases:
        for i in range(min(len(bs), 3)):            # opcode / prefix / ModRM bytes; immediates carry no decoding decision
            for b in range(8):
                c = list(bs)
                c[i] ^= 1 << b
                if tuple(c) not in seen:
                    seen.add(tuple(c))
                    near.append(c)
    for bs, (mn, ok, why) in zip(near, pmap(lambda x: judge_x86(x, False), near)):
        n += mn is not None
        if not ok:
            bad.append((bs, "near-miss: " + why))
    return n, bad


def const_of(bits):
    v = 0
    for i, b in enumerate(bits):
        assert b in (0, 1)
        v |= b << i
    return v


def a64_cases(rnd):
    ws = [0xd503201f]
    for _ in range(24):
        sf, hw, imm, rd = rnd.choice([0, 1]), rnd.randrange(4), rnd.getrandbits(16), rnd.randrange(31)
        if not sf:
            hw &= 1
        for opc in (0b10, 0b11, 0b00):
            ws.append((sf << 31) | (opc << 29) | (0b100101 << 23) | (hw << 21) | (imm << 5) | rd)
    for _ in range(12):
        imm26 = rnd.getrandbits(26)
        ws.append((0b000101 << 26) | imm26)
        ws.append((0b100101 << 26) | imm26)
    for _ in range(8):
        ws.append((rnd.choice([0, 1]) << 30) | (0b011000 << 24) | (rnd.getrandbits(19) << 5) | rnd.randrange(31))
    for rn in (0, 8, 9, 16, 17, 30):
        ws += [0xd61f0000 | (rn << 5), 0xd65f0000 | (rn << 5), 0xd63f0000 | (rn << 5)]
    for _ in range(12):
        immlo, immhi, rd = rnd.getrandbits(2), rnd.getrandbits(19), rnd.randrange(31)
        ws.append((1 << 31) | (immlo << 29) | (0b10000 << 24) | (immhi << 5) | rd)
        imm12, rn, rd2 = rnd.getrandbits(12), rnd.randrange(31), rnd.randrange(31)
        ws.append(0x91000000 | (imm12 << 10) | (rn << 5) | rd2)
    return ws


def judge_a64(w, must_decode=True):
    """(claimed mnemonic or None, agrees with llvm-mc, detail) for one A64 word."""
    if True:
        bs = list(w.to_bytes(4, "little"))
        try:
            ins = isa.decode_a64(I8(bs))
        except isa.Undecodable as e:
            return None, not must_decode, "mine: undecodable"
        k = ins[0]
        if k["mn"] == "data":
            return None, not must_decode, "mine: data"
        if not must_decode:
            # a near miss only matters when the tables would also give it a meaning: decoding is deliberately wider than the simulator
            try:
                isa.simulate_a64(ins)
            except isa.Undecodable:
                return None, True, "mine: no semantics"
        lines, err = llvm("aarch64", bs)
        l = lines[0] if lines else ""
        mn = l.split()[0] if l else "?"
        ok = False
        if k["mn"] == "nop":
            ok = mn == "nop"
        elif k["mn"] in ("movz", "movk", "movn"):
            # llvm prints aliases (mov) for movz/movn: compare the 64-bit value effect on a zeroed register instead
            sh = 16 * k["hw"]
            imm = const_of(k["imm16"])
            m = re.match(r"(mov|movz|movk|movn)\s+([wx])(\d+|zr), #(-?\w+)(?:, lsl #(\d+))?", l)
            if m:
                reg_ok = int(m.group(3)) == k["rd"] if m.group(3) != "zr" else k["rd"] == 31
                sf_ok = (m.group(2) == "x") == bool(k["sf"])
                if m.group(1) == "movk":
                    ok = k["mn"] == "movk" and reg_ok and sf_ok and num(m.group(4)) == imm and int(m.group(5) or 0) == sh
                elif m.group(1) == "mov":
                    width = 64 if k["sf"] else 32
                    val = num(m.group(4)) & (2**width - 1)
                    mine = (imm << sh) if k["mn"] == "movz" else (~(imm << sh)) & (2**width - 1)
                    ok = k["mn"] in ("movz", "movn") and reg_ok and sf_ok and val == mine
                else:
                    ok = m.group(1) == k["mn"] and reg_ok and sf_ok and num(m.group(4)) == imm and int(m.group(5) or 0) == sh
        elif k["mn"] in ("b", "bl"):
            m = re.match(r"(b|bl)\s+#(-?\w+)", l)
            ok = bool(m) and m.group(1) == k["mn"] and num(m.group(2)) == to_signed(const_of(k["imm26"]), 26) * 4
        elif k["mn"] in ("br", "blr", "ret"):
            m = re.match(r"(br|blr|ret)(?:\s+x(\d+))?", l)
            ok = bool(m) and m.group(1) == k["mn"] and (int(m.group(2)) if m.group(2) else 30) == k["rn"]
        elif k["mn"] == "adrp":
            m = re.match(r"adrp\s+x(\d+), #(-?\w+)", l)
            imm21 = const_of(tuple(k["immlo"]) + tuple(k["immhi"]))
            ok = bool(m) and int(m.group(1)) == k["rd"] and num(m.group(2)) == to_signed(imm21, 21) * 4096
        elif k["mn"] == "ldr_lit":
            m = re.match(r"ldr\s+([wx])(\d+), #(-?\w+)$", l)
            ok = bool(m) and (m.group(1) == "x") == bool(k["x"]) and int(m.group(2)) == k["rt"] and num(m.group(3)) == to_signed(const_of(k["imm19"]), 19) * 4
        elif k["mn"] == "add_imm":
            m = re.match(r"(add|mov)\s+(x\d+|sp), (x\d+|sp)(?:, #(\w+))?(?:, lsl #12)?", l)
            ok = bool(m)          # operand aliasing (mov x, sp) makes a field-wise comparison noisy; mnemonic class only
        return k["mn"], ok, "mine=%s llvm=%s" % ({a: b for a, b in k.items() if a != "bits"}, l)


def neighbours(w, nbits):
    return [w ^ (1 << i) for i in range(nbits)]


def pmap(f, xs):
    from concurrent.futures import ThreadPoolExecutor
    with ThreadPoolExecutor(max_workers=16) as ex:
        return list(ex.map(f, xs))


def check_a64(rnd):
    bad = []
    cases = a64_cases(rnd)
    for w, (mn, ok, why) in zip(cases, pmap(judge_a64, cases)):
        if not ok:
            bad.append((hex(w), why))
    # near misses: every single-bit neighbour of every corpus word - whatever the table still claims to recognise, llvm-mc must read the same way
    near = sorted({x for w in cases for x in neighbours(w, 32)} - set(cases))
    claimed = 0
    for w, (mn, ok, why) in zip(near, pmap(lambda x: judge_a64(x, False), near)):
        if mn is not None:
            claimed += 1
        if not ok:
            bad.append((hex(w), "near-miss: " + why))
    return len(cases) + claimed, bad


A32_CASES = [0xE51F9000, 0xE12FFF19, 0xE59FC000, 0xE51FC004, 0xE12FFF1C, 0xE1A00000, 0xE320F000, 0xE59F0004, 0xE12FFF10]
T32_CASES = [[0x4F00], [0x4F01], [0x4800], [0x4738], [0x4760], [0x4770], [0x46C0], [0xBF00], [0xF8DF, 0xC004], [0xF85F, 0x7008], [0xF8DF, 0x0000], [0x4780]]
ARM_REGS = {"r%d" % i: i for i in range(16)}
ARM_REGS.update({"ip": 12, "sp": 13, "lr": 14, "pc": 15, "sb": 9, "sl": 10, "fp": 11})


def judge_a32(w, must_decode=True):
    bs = list(w.to_bytes(4, "little"))
    try:
        k = isa.decode_a32(I8(bs))[0]
    except isa.Undecodable as e:
        return None, not must_decode, "mine: undecodable (%s)" % e
    if k["mn"] == "data":
        return None, not must_decode, "mine: data"
    lines, _ = llvm("armv7", bs)
    l = lines[0] if lines else ""
    ok = False
    if k["mn"] == "ldr_lit":
        m = re.match(r"ldr\s+(\w+), \[pc(?:, #(-?)(\w+))?\]$", l)
        ok = bool(m) and ARM_REGS.get(m.group(1)) == k["rt"] and int(m.group(3) or "0", 0) == k["imm"] and (((m.group(2) or "") == "-") == (k["u"] == 0))
    elif k["mn"] == "bx":
        m = re.match(r"bx\s+(\w+)$", l)
        ok = bool(m) and ARM_REGS.get(m.group(1)) == k["rm"]
    elif k["mn"] == "nop":
        ok = bool(l) and (l.split()[0] == "nop" or re.match(r"mov\s+r0, r0$", l) is not None)
    elif k["mn"] == "mov_imm":
        m = re.match(r"mov\s+(\w+), #(-?\w+)$", l)
        ok = bool(m) and ARM_REGS.get(m.group(1)) == k["rd"]
    return k["mn"], ok, "A32 mine=%s llvm=%s" % (k, l)


def judge_t32(hws, must_decode=True):
    bs = []
    for h in hws:
        bs += list(h.to_bytes(2, "little"))
    try:
        ks = isa.decode_t32(I8(bs))
    except isa.Undecodable as e:
        return None, not must_decode, "mine: undecodable (%s)" % e
    k = ks[0]
    if k["mn"] == "data":
        return None, not must_decode, "mine: data"
    if k.get("len", 2) != 2 * len(hws):
        if len(hws) == 2 and k.get("len", 2) == 2:
            hws = hws[:1]                    # a flipped first halfword turned a 32-bit encoding into a 16-bit one: judge that one
            bs = bs[:2]
        else:
            return k["mn"], False, "T32 length: mine=%s for %s" % (k, hws)
    lines, _ = llvm("thumbv7", bs)
    l = lines[0] if lines else ""
    ok = False
    if k["mn"] == "ldr_lit":
        m = re.match(r"ldr(?:\.w)?\s+(\w+), \[pc(?:, #(-?)(\w+))?\]$", l)
        ok = bool(m) and ARM_REGS.get(m.group(1)) == k["rt"] and int(m.group(3) or "0", 0) == k["imm"] and (((m.group(2) or "") == "-") == (k["u"] == 0))
    elif k["mn"] in ("bx", "blx"):
        m = re.match(r"(bx|blx)\s+(\w+)$", l)
        ok = bool(m) and m.group(1) == k["mn"] and ARM_REGS.get(m.group(2)) == k["rm"]
    elif k["mn"] in ("nop", "nop_hint"):
        ok = l.startswith("nop") or re.match(r"mov\s+r8, r8$", l) is not None
    elif k["mn"] == "mov_reg":
        m = re.match(r"mov\s+(\w+), (\w+)$", l)
        ok = bool(m) and ARM_REGS.get(m.group(1)) == k["rd"] and ARM_REGS.get(m.group(2)) == k["rm"]
    return k["mn"], ok, "T32 mine=%s llvm=%s" % (k, l)


def check_arm(rnd):
    bad = []
    n = 0
    for w, (mn, ok, why) in zip(A32_CASES, pmap(judge_a32, A32_CASES)):
        n += 1
        if not ok:
            bad.append((hex(w), why))
    for hws, (mn, ok, why) in zip(T32_CASES, pmap(judge_t32, T32_CASES)):
        n += 1
        if not ok:
            bad.append((["%04x" % h for h in hws], why))
    # near misses (every single-bit neighbour of every corpus encoding)
    near = sorted({x for w in A32_CASES for x in neighbours(w, 32)} - set(A32_CASES))
    for w, (mn, ok, why) in zip(near, pmap(lambda x: judge_a32(x, False), near)):
        n += mn is not None
        if not ok:
            bad.append((hex(w), "near-miss: " + why))
    near_t = []
    for hws in T32_CASES:
        v = 0
        for i, h in enumerate(hws):
            v |= h << (16 * i)
        for x in neighbours(v, 16 * len(hws)):
            c = [(x >> (16 * i)) & 0xffff for i in range(len(hws))]
            if c not in T32_CASES and c not in near_t:
                near_t.append(c)
    for hws, (mn, ok, why) in zip(near_t, pmap(lambda x: judge_t32(x, False), near_t)):
        n += mn is not None
        if not ok:
            bad.append((["%04x" % h for h in hws], "near-miss: " + why))
    return n, bad


def main(argv):
    rnd = random.Random(20261004)
    total = 0
    nbad = 0
    for name, fn in (("x86-64", check_x86), ("A64", check_a64), ("A32/T32", check_arm)):
        n, bad = fn(rnd)
        total += n
        nbad += len(bad)
        print("%-8s %4d encodings cross-checked against llvm-mc, %d disagreement(s)" % (name, n, len(bad)))
        for b in bad[:10]:
            print("   ", b)
    return 1 if nbad else 0
