"""`./verif selftest --isa` — cross-checks the three decode tables of analysis/isa.py against LLVM's disassembler (llvm-mc)
on a generated corpus of concrete encodings covering every table entry with varied fields. This validates the *checker's*
trusted tables; it does not look at the repository and decides no property."""
import subprocess, re, itertools, random, sys
from .expr import *
from . import isa


def llvm(triple, bs):
    txt = " ".join("0x%02x" % b for b in bs)
    r = subprocess.run(["llvm-mc-14", "--disassemble", "-triple=" + triple], input=txt, stdout=subprocess.PIPE, stderr=subprocess.PIPE, text=True)
    lines = [l.strip() for l in r.stdout.splitlines() if l.strip() and not l.strip().startswith(".")]
    return lines, r.stderr


def I8(bs):
    return [int_const(b, 8) for b in bs]


def num(s):
    s = s.strip().lstrip("#$")
    return int(s, 0)


X86R = {"rax": 0, "rcx": 1, "rdx": 2, "rbx": 3, "rsp": 4, "rbp": 5, "rsi": 6, "rdi": 7, "r8": 8, "r9": 9, "r10": 10, "r11": 11, "r12": 12,
        "r13": 13, "r14": 14, "r15": 15}
X86R32 = {"eax": 0, "ecx": 1, "edx": 2, "ebx": 3, "esp": 4, "ebp": 5, "esi": 6, "edi": 7}
X86R8 = {"al": 0, "cl": 1, "dl": 2, "bl": 3}


def x86_cases(rnd):
    cs = []
    for d in (0, 1, -1, 0x7fffffff, -0x80000000, rnd.randrange(-2**31, 2**31)):
        cs.append([0xE9] + list((d & 0xffffffff).to_bytes(4, "little")))
    for d in (0, -2, 127, -128):
        cs.append([0xEB, d & 0xff])
    for r in range(16):
        v = rnd.getrandbits(64)
        rex = 0x48 | (1 if r >= 8 else 0)
        cs.append([rex, 0xB8 + (r & 7)] + list(v.to_bytes(8, "little")))
        cs.append(([0x41] if r >= 8 else []) + [0xFF, 0xE0 + (r & 7)])
    for r in range(8):
        v = rnd.getrandbits(32)
        cs.append([0xB8 + r] + list(v.to_bytes(4, "little")))
        cs.append([0x48, 0xC7, 0xC0 + r] + list(v.to_bytes(4, "little")))
    for r in range(4):
        cs.append([0xB0 + r, rnd.getrandbits(8)])
        cs.append([0x31, 0xC0 + r * 9])
    cs += [[0xC3], [0x90]]
    return cs


def check_x86(rnd):
    bad = []
    n = 0
    for bs in x86_cases(rnd):
        n += 1
        lines, err = llvm("x86_64", bs)
        try:
            ins, used = isa.decode_x86(I8(bs))
        except isa.Undecodable as e:
            bad.append((bs, "mine: undecodable %s; llvm: %s" % (e, lines)))
            continue
        if len(lines) != 1 or len(ins) != 1 or used != len(bs):
            bad.append((bs, "count mismatch mine=%s llvm=%s" % (ins, lines)))
            continue
        k, l = ins[0], lines[0]
        mn = l.split()[0]
        ok = False
        if k["mn"] == "jmp_rel":
            ok = mn == "jmp" and num(l.split()[1]) == k["imm"].sval()
        elif k["mn"] == "mov_imm":
            mx = re.match(r"xor[lq]\s+%(\w+), %(\w+)", l)
            m = re.match(r"(movabsq|movq|movl)\s+\$?(-?\w+), %(\w+)", l)
            if mx:
                ok = const_of(k["bits"]) == 0 and mx.group(1) == mx.group(2) and (X86R32.get(mx.group(1), X86R.get(mx.group(1))) == k["reg"])
            elif m:
                v = num(m.group(2))
                reg = m.group(3)
                if m.group(1) == "movl":
                    ok = X86R32.get(reg) == k["reg"] and const_of(k["bits"]) == (v & 0xffffffff)
                else:
                    ok = X86R.get(reg) == k["reg"] and const_of(k["bits"]) == (v & (2**64 - 1))
        elif k["mn"] == "mov_imm8":
            m = re.match(r"movb\s+\$(-?\w+), %(\w+)", l)
            ok = bool(m) and X86R8.get(m.group(2)) == k["reg"] and const_of(k["bits"]) == (num(m.group(1)) & 0xff)
        elif k["mn"] == "jmp_reg":
            m = re.match(r"jmpq\s+\*%(\w+)", l)
            ok = bool(m) and X86R.get(m.group(1)) == k["reg"]
        elif k["mn"] == "ret":
            ok = mn == "retq"
        elif k["mn"] == "nop":
            ok = mn == "nop"
        if not ok:
            bad.append((bs, "mine=%s llvm=%s" % ({a: b for a, b in k.items() if a != "bits"}, l)))
    return n, bad


def const_of(bits):
    v = 0
    for i, b in enumerate(bits):
        assert b in (0, 1)
        v |= b << i
    return v


def a64_cases(rnd):
    ws = [0xd503201f]
    for _ in range(24):
        sf, hw, imm, rd = rnd.choice([0, 1]), rnd.randrange(4), rnd.getrandbits(16), rnd.randrange(31)
        if not sf:
            hw &= 1
        for opc in (0b10, 0b11, 0b00):
            ws.append((sf << 31) | (opc << 29) | (0b100101 << 23) | (hw << 21) | (imm << 5) | rd)
    for _ in range(12):
        imm26 = rnd.getrandbits(26)
        ws.append((0b000101 << 26) | imm26)
        ws.append((0b100101 << 26) | imm26)
    for rn in (0, 8, 9, 16, 17, 30):
        ws += [0xd61f0000 | (rn << 5), 0xd65f0000 | (rn << 5), 0xd63f0000 | (rn << 5)]
    for _ in range(12):
        immlo, immhi, rd = rnd.getrandbits(2), rnd.getrandbits(19), rnd.randrange(31)
        ws.append((1 << 31) | (immlo << 29) | (0b10000 << 24) | (immhi << 5) | rd)
        imm12, rn, rd2 = rnd.getrandbits(12), rnd.randrange(31), rnd.randrange(31)
        ws.append(0x91000000 | (imm12 << 10) | (rn << 5) | rd2)
    return ws


def check_a64(rnd):
    bad = []
    n = 0
    for w in a64_cases(rnd):
        n += 1
        bs = list(w.to_bytes(4, "little"))
        lines, err = llvm("aarch64", bs)
        try:
            ins = isa.decode_a64(I8(bs))
        except isa.Undecodable as e:
            bad.append((hex(w), "mine: undecodable; llvm: %s" % lines))
            continue
        k = ins[0]
        l = lines[0] if lines else ""
        mn = l.split()[0] if l else "?"
        ok = False
        if k["mn"] == "nop":
            ok = mn == "nop"
        elif k["mn"] in ("movz", "movk", "movn"):
            # llvm prints aliases (mov) for movz/movn: compare the 64-bit value effect on a zeroed register instead
            sh = 16 * k["hw"]
            imm = const_of(k["imm16"])
            m = re.match(r"(mov|movz|movk|movn)\s+([wx])(\d+|zr), #(-?\w+)(?:, lsl #(\d+))?", l)
            if m:
                reg_ok = int(m.group(3)) == k["rd"] if m.group(3) != "zr" else k["rd"] == 31
                sf_ok = (m.group(2) == "x") == bool(k["sf"])
                if m.group(1) == "movk":
                    ok = k["mn"] == "movk" and reg_ok and sf_ok and num(m.group(4)) == imm and int(m.group(5) or 0) == sh
                elif m.group(1) == "mov":
                    width = 64 if k["sf"] else 32
                    val = num(m.group(4)) & (2**width - 1)
                    mine = (imm << sh) if k["mn"] == "movz" else (~(imm << sh)) & (2**width - 1)
                    ok = k["mn"] in ("movz", "movn") and reg_ok and sf_ok and val == mine
                else:
                    ok = m.group(1) == k["mn"] and reg_ok and sf_ok and num(m.group(4)) == imm and int(m.group(5) or 0) == sh
        elif k["mn"] in ("b", "bl"):
            m = re.match(r"(b|bl)\s+#(-?\w+)", l)
            ok = bool(m) and m.group(1) == k["mn"] and num(m.group(2)) == to_signed(const_of(k["imm26"]), 26) * 4
        elif k["mn"] in ("br", "blr", "ret"):
            m = re.match(r"(br|blr|ret)(?:\s+x(\d+))?", l)
            ok = bool(m) and m.group(1) == k["mn"] and (int(m.group(2)) if m.group(2) else 30) == k["rn"]
        elif k["mn"] == "adrp":
            m = re.match(r"adrp\s+x(\d+), #(-?\w+)", l)
            imm21 = const_of(tuple(k["immlo"]) + tuple(k["immhi"]))
            ok = bool(m) and int(m.group(1)) == k["rd"] and num(m.group(2)) == to_signed(imm21, 21) * 4096
        elif k["mn"] == "add_imm":
            m = re.match(r"(add|mov)\s+(x\d+|sp), (x\d+|sp)(?:, #(\w+))?(?:, lsl #12)?", l)
            ok = bool(m)          # operand aliasing (mov x, sp) makes a field-wise comparison noisy; mnemonic class only
        if not ok:
            bad.append((hex(w), "mine=%s llvm=%s" % ({a: b for a, b in k.items() if a != "bits"}, l)))
    return n, bad


def check_arm(rnd):
    bad = []
    n = 0
    # A32
    for w in [0xE51F9000, 0xE12FFF19, 0xE59FC000, 0xE51FC004, 0xE12FFF1C, 0xE1A00000, 0xE320F000, 0xE59F0004, 0xE12FFF10]:
        n += 1
        bs = list(w.to_bytes(4, "little"))
        lines, _ = llvm("armv7", bs)
        k = isa.decode_a32(I8(bs))[0]
        l = lines[0] if lines else ""
        ok = False
        if k["mn"] == "ldr_lit":
            m = re.match(r"ldr\s+(\w+), \[pc(?:, #(-?)(\w+))?\]", l)
            regs = {"r%d" % i: i for i in range(16)}
            regs.update({"r12": 12, "ip": 12, "sp": 13, "lr": 14, "pc": 15})
            ok = bool(m) and regs.get(m.group(1)) == k["rt"] and int(m.group(3) or "0", 0) == k["imm"] and (((m.group(2) or "") == "-") == (k["u"] == 0))
        elif k["mn"] == "bx":
            m = re.match(r"bx\s+(\w+)", l)
            ok = bool(m) and {"r12": 12, "ip": 12, "lr": 14}.get(m.group(1), int(m.group(1)[1:]) if m.group(1)[1:].isdigit() else -1) == k["rm"]
        elif k["mn"] == "nop":
            ok = l.split()[0] in ("nop", "mov")
        if not ok:
            bad.append((hex(w), "A32 mine=%s llvm=%s" % (k, l)))
    # T32
    for hws in [[0x4F00], [0x4F01], [0x4800], [0x4738], [0x4760], [0x4770], [0x46C0], [0xBF00], [0xF8DF, 0xC004], [0xF85F, 0x7008], [0xF8DF, 0x0000], [0x4780]]:
        n += 1
        bs = []
        for h in hws:
            bs += list(h.to_bytes(2, "little"))
        lines, _ = llvm("thumbv7", bs)
        k = isa.decode_t32(I8(bs))[0]
        l = lines[0] if lines else ""
        regs = {"r%d" % i: i for i in range(16)}
        regs.update({"ip": 12, "sp": 13, "lr": 14, "pc": 15})
        ok = False
        if k["mn"] == "ldr_lit":
            m = re.match(r"ldr(?:\.w)?\s+(\w+), \[pc(?:, #(-?)(\w+))?\]", l)
            ok = bool(m) and regs.get(m.group(1)) == k["rt"] and int(m.group(3) or "0", 0) == k["imm"] and (((m.group(2) or "") == "-") == (k["u"] == 0))
        elif k["mn"] in ("bx", "blx"):
            m = re.match(r"(bx|blx)\s+(\w+)", l)
            ok = bool(m) and m.group(1) == k["mn"] and regs.get(m.group(2)) == k["rm"]
        elif k["mn"] in ("nop", "nop_hint"):
            ok = l.startswith("nop") or l.startswith("mov\tr8, r8") or re.match(r"mov\s+r8, r8", l) is not None
        elif k["mn"] == "mov_reg":
            m = re.match(r"mov\s+(\w+), (\w+)", l)
            ok = bool(m) and regs.get(m.group(1)) == k["rd"] and regs.get(m.group(2)) == k["rm"]
        if not ok:
            bad.append((["%04x" % h for h in hws], "T32 mine=%s llvm=%s" % (k, l)))
    return n, bad


def main(argv):
    rnd = random.Random(20261004)
    total = 0
    nbad = 0
    for name, fn in (("x86-64", check_x86), ("A64", check_a64), ("A32/T32", check_arm)):
        n, bad = fn(rnd)
        total += n
        nbad += len(bad)
        print("%-8s %4d encodings cross-checked against llvm-mc, %d disagreement(s)" % (name, n, len(bad)))
        for b in bad[:10]:
            print("   ", b)
    return 1 if nbad else 0
