import sys, os, time, json
from concurrent.futures import ThreadPoolExecutor
from . import extract


def cmd_setup(args):
    t0 = time.time()
    extract.build_driver()
    print("driver built in %.1fs" % (time.time() - t0))
    logs = {}
    def one(t):
        l = []
        ok = extract.build_sysroot(t, l)
        logs[t] = l
        return ok
    with ThreadPoolExecutor(max_workers=4) as ex:
        res = list(zip(extract.CROSS_TARGETS, ex.map(one, extract.CROSS_TARGETS)))
    bad = [t for t, ok in res if not ok]
    for t, ok in res:
        print("sysroot %-40s %s" % (t, "ok" if ok else "FAILED"))
    if bad:
        for t in bad:
            print("".join(logs[t])[-2000:])
        return 1
    print("setup done in %.1fs" % (time.time() - t0))
    return 0


def cmd_dump(args):
    from .facts import fmt_body
    target = args[0]
    pats = args[1:]
    with extract.Workspace() as ws:
        f = ws.lib_facts(target)
        for b in f.data["bodies"]:
            if not pats or any(p in b["path"] for p in pats):
                print(fmt_body(b))
                print()
    return 0


def main(argv):
    if not argv:
        print("usage: verif setup | check <id> [--tier quick|thorough] | dump <target> [fn...]")
        return 2
    cmd, args = argv[0], argv[1:]
    if cmd == "setup":
        return cmd_setup(args)
    if cmd == "dump":
        return cmd_dump(args)
    if cmd == "check":
        from . import check
        return check.main(args)
    if cmd == "selftest":
        from . import selftest
        return selftest.main(args)
    if cmd == "explain":
        import json
        d = json.load(open(args[0]))
        print(json.dumps(d, indent=1))
        print("re-run: %s" % d.get("replay"))
        return 0
    print("unknown command", cmd)
    return 2
