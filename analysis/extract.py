"""Running the mirfacts driver over a scratch copy of /repo for a list of targets.

Nothing under /repo is written: the working tree (src/, tests/, Cargo.toml, Cargo.lock) is copied to a
per-run temp dir; every cargo invocation gets a fresh CARGO_TARGET_DIR (cargo's freshness cache would
otherwise skip the wrapper)."""
import os, shutil, subprocess, tempfile, glob, json, time
from concurrent.futures import ThreadPoolExecutor

VERIF = os.path.dirname(os.path.dirname(os.path.abspath(__file__)))
REPO = os.environ.get("VERIF_REPO", "/repo")
CACHE = os.path.join(VERIF, ".cache")
DRIVER = os.path.join(VERIF, "driver", "target", "release", "mirfacts")
HOST = "x86_64-unknown-linux-gnu"

ALL_TARGETS = [
    "x86_64-unknown-linux-gnu",
    "aarch64-unknown-linux-gnu",
    "armv7-unknown-linux-gnueabihf",
    "aarch64-apple-darwin",
    "x86_64-apple-darwin",
    "x86_64-pc-windows-msvc",
    "aarch64-pc-windows-msvc",
    "thumbv7neon-unknown-linux-gnueabihf",
]
CROSS_TARGETS = [t for t in ALL_TARGETS if t != HOST]


class ExtractError(Exception):
    pass


def nightly_sysroot():
    return subprocess.check_output(["rustc", "+nightly", "--print", "sysroot"], text=True).strip()


_env_cache = {}


def base_env():
    if "e" not in _env_cache:
        e = dict(os.environ)
        e["CARGO_NET_OFFLINE"] = "true"
        e["LD_LIBRARY_PATH"] = nightly_sysroot() + "/lib" + (":" + e["LD_LIBRARY_PATH"] if e.get("LD_LIBRARY_PATH") else "")
        e.pop("RUSTC_WRAPPER", None)
        _env_cache["e"] = e
    return dict(_env_cache["e"])


def sysroot_dir(target):
    return os.path.join(CACHE, "sysroots", target)


def sysroot_ok(target):
    d = sysroot_dir(target)
    return bool(glob.glob(os.path.join(d, "lib", "rustlib", target, "lib", "libstd-*.rmeta")) or
                glob.glob(os.path.join(d, "lib", "rustlib", target, "lib", "libstd-*.rlib")))


def build_sysroot(target, log=None):
    """cargo +nightly miri setup builds a check-only std for `target` from rust-src, offline."""
    if target == HOST or sysroot_ok(target):
        return True
    d = sysroot_dir(target)
    os.makedirs(d, exist_ok=True)
    e = base_env()
    e["MIRI_SYSROOT"] = d
    tmp = tempfile.mkdtemp(prefix="ipp-sysroot-")
    try:
        r = subprocess.run(["cargo", "+nightly", "miri", "setup", "--target", target], env=e, cwd=tmp,
                           stdout=subprocess.PIPE, stderr=subprocess.STDOUT, text=True)
        if log is not None:
            log.append(r.stdout)
        return r.returncode == 0 and sysroot_ok(target)
    finally:
        shutil.rmtree(tmp, ignore_errors=True)


def build_driver():
    e = base_env()
    r = subprocess.run(["cargo", "+nightly", "build", "--release", "--offline"], cwd=os.path.join(VERIF, "driver"), env=e,
                       stdout=subprocess.PIPE, stderr=subprocess.STDOUT, text=True)
    if r.returncode != 0 or not os.path.exists(DRIVER):
        raise ExtractError("driver build failed:\n" + r.stdout)


def ensure_driver():
    src = os.path.join(VERIF, "driver", "src", "main.rs")
    if not os.path.exists(DRIVER) or os.path.getmtime(DRIVER) < os.path.getmtime(src):
        build_driver()


class Workspace:
    """A scratch copy of the repository's working tree plus per-target fact files."""

    def __init__(self, repo=REPO):
        self.repo = repo
        self.dir = tempfile.mkdtemp(prefix="ipp-verif-")
        self.src = os.path.join(self.dir, "repo")
        os.makedirs(self.src)
        for name in ("src", "tests"):
            p = os.path.join(repo, name)
            if os.path.isdir(p):
                shutil.copytree(p, os.path.join(self.src, name))
        for name in ("Cargo.toml", "Cargo.lock"):
            p = os.path.join(repo, name)
            if os.path.exists(p):
                shutil.copy(p, os.path.join(self.src, name))
        self.facts = {}
        self.logs = {}

    def close(self):
        shutil.rmtree(self.dir, ignore_errors=True)

    def __enter__(self):
        return self

    def __exit__(self, *a):
        self.close()

    def _run_driver(self, cwd, crates, target, tag, extra_rustflags="", cargo_args=("--lib",), profile_env=None):
        ensure_driver()
        if target != HOST and not sysroot_ok(target):
            if not build_sysroot(target):
                raise ExtractError("cannot build sysroot for %s" % target)
        e = base_env()
        out = os.path.join(self.dir, "facts-%s-%s" % (tag, target))
        tgt = os.path.join(self.dir, "tgt-%s-%s" % (tag, target))
        flags = "-Zmir-opt-level=0 -Awarnings " + extra_rustflags
        if target != HOST:
            flags += " --sysroot " + sysroot_dir(target)
        e["RUSTFLAGS"] = flags
        e["MIRFACTS_CRATES"] = ",".join(crates)
        e["MIRFACTS_OUT"] = out
        e["RUSTC_WORKSPACE_WRAPPER"] = DRIVER
        e["CARGO_TARGET_DIR"] = tgt
        if profile_env:
            e.update(profile_env)
        cmd = ["cargo", "+nightly", "check", "--offline", "--message-format=json"] + list(cargo_args)
        if target != HOST:
            cmd += ["--target", target]
        r = subprocess.run(cmd, cwd=cwd, env=e, stdout=subprocess.PIPE, stderr=subprocess.PIPE, text=True)
        shutil.rmtree(tgt, ignore_errors=True)
        msgs = []
        for line in r.stdout.splitlines():
            try:
                msgs.append(json.loads(line))
            except ValueError:
                pass
        res = {}
        for c in crates:
            files = glob.glob(out + "." + c + ".*.json")
            if files:
                res[c] = files
        return r.returncode, msgs, r.stderr, res

    def lib_facts(self, target, variant="dev"):
        """Facts of the injectorpp library for `target` (cached per workspace). A target spelled `<triple>@release` is the
        same triple compiled the way a release profile compiles it (debug assertions and overflow checks off): code under
        `debug_assert!`/`cfg!(debug_assertions)` is absent from its MIR."""
        from .facts import Facts
        label = target
        if "@" in target:
            target, variant = target.split("@", 1)
        key = (target, variant)
        if key in self.facts:
            return self.facts[key]
        extra = ""
        if variant == "release":
            extra = "-C overflow-checks=off -C debug-assertions=off"
        rc, msgs, err, res = self._run_driver(self.src, ["injectorpp"], target, "lib-" + variant, extra)
        if rc != 0 or "injectorpp" not in res:
            raise ExtractError("fact extraction failed for %s (%s): rc=%s\n%s" % (target, variant, rc, err[-3000:]))
        if len(res["injectorpp"]) != 1:
            raise ExtractError("expected exactly one fact file for injectorpp/%s, got %d" % (target, len(res["injectorpp"])))
        f = Facts.load(res["injectorpp"][0])
        if variant != "dev":
            f.target = label if "@" in label else "%s@%s" % (target, variant)
        self.facts[key] = f
        return f

    def lib_facts_many(self, targets, variant="dev"):
        with ThreadPoolExecutor(max_workers=min(8, max(1, len(targets)))) as ex:
            futs = {t: ex.submit(self.lib_facts, t, variant) for t in targets}
            return {t: f.result() for t, f in futs.items()}
