"""Static analysis of injectorpp over MIR facts exported by /verif/driver (mirfacts)."""
