"""Obligation bookkeeping, known findings, evidence and replay files."""
import json, os, time, hashlib

VERIF = os.path.dirname(os.path.dirname(os.path.abspath(__file__)))
EVID = os.environ.get("VERIF_EVIDENCE_DIR") or os.path.join(VERIF, "evidence")
KNOWN = os.path.join(VERIF, "known_findings.json")


def load_known():
    if not os.path.exists(KNOWN):
        return []
    with open(KNOWN) as f:
        return json.load(f)["findings"]


class Check:
    def __init__(self, pid, tier, seed=0):
        self.pid = pid
        self.tier = tier
        self.seed = seed
        self.t0 = time.time()
        self.obligations = []      # dicts: rule, key, target, ok, detail, where
        self.violations = []
        self.known_hits = []
        self.infos = []
        self.analysed = []         # (target, function)
        self.assumptions = []
        self.trusted = []
        self.decided = ""
        self.not_decided = ""
        self.known = [k for k in load_known() if k["property"] == pid]

    # ------------------------------------------------------------------ recording
    def analysed_fn(self, target, fn):
        t = (target, fn)
        if t not in self.analysed:
            self.analysed.append(t)

    def ob(self, rule, key, target, ok, detail, where=None, witness=None):
        """One obligation (rule instance). key identifies the construct without line numbers."""
        full = "%s/%s/%s" % (self.pid, rule, key)
        rec = {"rule": rule, "key": full, "target": target, "ok": bool(ok), "detail": detail, "where": where}
        self.obligations.append(rec)
        if not ok:
            self._violation(rec, witness)
        return ok

    def floor(self, rule, what, count, minimum, target="*"):
        ok = count >= minimum
        self.ob(rule, "floor/%s" % what, target, ok,
                "instance count for '%s' is %d (floor %d, hand-confirmed on the pinned tree)%s" % (
                    what, count, minimum, "" if ok else " — the rule would pass vacuously; failing closed"))
        return ok

    def info(self, msg):
        self.infos.append(msg)

    def _violation(self, rec, witness):
        for k in self.known:
            if k.get("status") == "open" and k["key"] == rec["key"]:
                self.known_hits.append((k, rec))
                return
        v = dict(rec)
        v["witness"] = witness
        self.violations.append(v)

    # ------------------------------------------------------------------ output
    def finish(self, explanation, level="other", samples_extra=None):
        os.makedirs(os.path.join(EVID, "replay"), exist_ok=True)
        # remove stale replay files of this property
        for f in os.listdir(os.path.join(EVID, "replay")):
            if f.startswith(self.pid + "-"):
                os.remove(os.path.join(EVID, "replay", f))
        seen_known = set()
        for k, rec in self.known_hits:
            if k["key"] in seen_known:
                continue
            seen_known.add(k["key"])
            print("KNOWN-FINDING: property=%s %s [%s]" % (self.pid, k["what"], k["key"]))
        n = 0
        seen = set()
        for v in self.violations:
            kk = (v["key"], v["target"])
            if kk in seen:
                continue
            seen.add(kk)
            n += 1
            path = os.path.join(EVID, "replay", "%s-%d.json" % (self.pid, n))
            with open(path, "w") as f:
                json.dump({"property": self.pid, "rule": v["rule"], "key": v["key"], "target": v["target"],
                           "where": v["where"], "detail": v["detail"], "witness": v["witness"],
                           "replay": "./verif check %s --tier %s" % (self.pid, self.tier)}, f, indent=1, default=str)
            print("  rule %s [%s] target=%s at %s: %s" % (v["rule"], v["key"], v["target"], v["where"], v["detail"]))
            print("VIOLATION property=%s replay=%s" % (self.pid, path))
        total = len(self.obligations)
        discharged = sum(1 for o in self.obligations if o["ok"])
        distinct = len({(o["key"], o["target"]) for o in self.obligations})
        samples = []
        for o in self.obligations:
            if len(samples) >= 40:
                break
            samples.append({"rule": o["rule"], "key": o["key"], "target": o["target"], "where": o["where"],
                            "verdict": "holds" if o["ok"] else "VIOLATED", "detail": o["detail"][:400]})
        # make sure failing ones are in the sample list
        for o in self.obligations:
            if not o["ok"] and len(samples) < 80:
                samples.append({"rule": o["rule"], "key": o["key"], "target": o["target"], "where": o["where"],
                                "verdict": "VIOLATED", "detail": o["detail"][:400]})
        ev = {
            "property_id": self.pid,
            "tier": self.tier,
            "seed": self.seed,
            "level": level,
            "coverage": {
                "explanation": explanation,
                "obligations": total,
                "discharged": discharged,
                "evaluations": total,
                "distinct_nontrivial": distinct,
                "rule": "one evaluation = one rule instance (obligation) decided on the MIR of /repo's current working tree for one "
                        "target configuration; distinct = distinct (construct key, target) pairs; an instance is non-trivial only if it "
                        "matched a real construct (floors fail the check when a rule matches nothing)",
                "samples": samples + (samples_extra or []),
                "checker_cmd": "./verif check %s --tier %s" % (self.pid, self.tier),
                "trusted_base": self.trusted,
                "analysed": [{"target": t, "function": f} for t, f in self.analysed][:400],
                "targets": sorted({t for t, _ in self.analysed}),
                "rules": sorted({o["rule"] for o in self.obligations}),
                "known_findings_reported": sorted(seen_known),
                "infos": self.infos[:60],
                "exhaustive": False,
            },
            "assumptions": self.assumptions,
            "wall_s": round(time.time() - self.t0, 2),
            "violations": n,
        }
        os.makedirs(EVID, exist_ok=True)
        with open(os.path.join(EVID, "%s.json" % self.pid), "w") as f:
            json.dump(ev, f, indent=1, default=str)
        print("%s [%s]: %d obligations, %d discharged, %d known finding(s), %d violation(s), targets=%s, %.1fs" % (
            self.pid, self.tier, total, discharged, len(seen_known), n, ",".join(ev["coverage"]["targets"]), ev["wall_s"]))
        return 1 if n else 0
