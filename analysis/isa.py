"""Decode tables for the instruction subsets the patches may use, written from the architecture manuals
(Intel SDM vol. 2, Arm ARM DDI 0487 C6.2, Arm ARM DDI 0406 A8.8) – independent of the repository's encoders.

Decoders work on *abstract* bytes (expr.Int of width 8): opcode, register and addressing-mode bits must be
constants; immediates may carry bit provenance (bits of symbolic leaves). Each decoder returns a list of
instruction records; `simulate_*` runs the straight-line semantics on abstract registers up to the first control
transfer and reports the destination.
"""
from .expr import *


class Undecodable(Exception):
    pass


def cbyte(b, what):
    if not b.is_const():
        raise Undecodable("%s is not a constant byte: %r" % (what, b))
    return b.cval()


def bits_of_bytes(bs):
    out = []
    for b in bs:
        out.extend(b.get_bits())
    return tuple(out)


def const_field(bits, what):
    v = 0
    for i, b in enumerate(bits):
        if not (b == 0 or b == 1):
            raise Undecodable("%s contains a non-constant bit: %r" % (what, b))
        v |= b << i
    return v


def bits_const(bits):
    return all(b == 0 or b == 1 for b in bits)


# =============================================================================================== x86-64

X86_REGS = ["rax", "rcx", "rdx", "rbx", "rsp", "rbp", "rsi", "rdi", "r8", "r9", "r10", "r11", "r12", "r13", "r14", "r15"]


def decode_x86(bs):
    """bs: list of Int(8). Returns list of dicts: mn, off, len, plus fields. Stops after a control transfer."""
    out = []
    i = 0
    n = len(bs)
    while i < n:
        start = i
        b = cbyte(bs[i], "opcode byte at +%d" % i)
        rex = None
        if 0x40 <= b <= 0x4F:
            rex = b
            i += 1
            if i >= n:
                raise Undecodable("REX prefix at end of code")
            b = cbyte(bs[i], "opcode byte at +%d" % i)
        W = bool(rex and rex & 8)
        R = 1 if (rex and rex & 4) else 0
        B = 1 if (rex and rex & 1) else 0

        def need(k):
            if i + 1 + k > n:
                raise Undecodable("instruction at +%d truncated (needs %d more bytes)" % (start, k))
            return bs[i + 1:i + 1 + k]

        if b == 0xE9:
            imm = need(4)
            out.append({"mn": "jmp_rel", "off": start, "len": i + 5 - start, "imm": int_from_bytes(imm, True), "immw": 32})
            i += 5
            break
        if b == 0xEB:
            imm = need(1)
            out.append({"mn": "jmp_rel", "off": start, "len": i + 2 - start, "imm": int_from_bytes(imm, True), "immw": 8})
            i += 2
            break
        if 0xB8 <= b <= 0xBF:
            reg = (b & 7) | (B << 3)
            if W:
                imm = need(8)
                out.append({"mn": "mov_imm", "off": start, "len": i + 9 - start, "reg": reg, "bits": bits_of_bytes(imm), "opw": 64})
                i += 9
            else:
                imm = need(4)
                out.append({"mn": "mov_imm", "off": start, "len": i + 5 - start, "reg": reg, "bits": bits_of_bytes(imm) + (0,) * 32, "opw": 32})
                i += 5
            continue
        if 0xB0 <= b <= 0xB7:
            if rex is None and (b & 7) >= 4:
                raise Undecodable("mov to ah/ch/dh/bh is outside the accepted subset")
            reg = (b & 7) | (B << 3)
            imm = need(1)
            out.append({"mn": "mov_imm8", "off": start, "len": i + 2 - start, "reg": reg, "bits": bits_of_bytes(imm), "opw": 8})
            i += 2
            continue
        if b == 0xC7:
            modrm = cbyte(need(1)[0], "modrm")
            if modrm >> 6 != 3 or (modrm >> 3) & 7 != 0:
                raise Undecodable("C7 with modrm %#x (memory operand or /%d) is outside the accepted subset" % (modrm, (modrm >> 3) & 7))
            reg = (modrm & 7) | (B << 3)
            if i + 2 + 4 > n:
                raise Undecodable("C7 /0 truncated")
            imm = bits_of_bytes(bs[i + 2:i + 6])
            if W:
                bits = imm + (imm[31],) * 32
            else:
                bits = imm + (0,) * 32
            out.append({"mn": "mov_imm", "off": start, "len": i + 6 - start, "reg": reg, "bits": bits, "opw": 64 if W else 32})
            i += 6
            continue
        if b in (0x31, 0x33):
            modrm = cbyte(need(1)[0], "modrm")
            if modrm >> 6 != 3:
                raise Undecodable("xor with memory operand")
            r1 = ((modrm >> 3) & 7) | (R << 3)
            r2 = (modrm & 7) | (B << 3)
            if r1 != r2:
                raise Undecodable("xor of two different registers is outside the accepted subset")
            out.append({"mn": "mov_imm", "off": start, "len": i + 2 - start, "reg": r1, "bits": (0,) * 64, "opw": 64 if W else 32, "flags": True})
            i += 2
            continue
        if b == 0xFF:
            modrm = cbyte(need(1)[0], "modrm")
            ext = (modrm >> 3) & 7
            if modrm == 0x25:
                # jmp qword ptr [rip + disp32]: the destination is a literal, normally the 8 bytes that follow
                d = need(5)[1:5]
                dv = int_from_bytes(d, True)
                if not dv.is_const():
                    raise Undecodable("jmp [rip+disp32] with a displacement that is not constant")
                out.append({"mn": "jmp_mem_rip", "off": start, "len": i + 6 - start, "disp": dv.sval()})
                i += 6
                break
            if modrm >> 6 != 3:
                raise Undecodable("FF /%d with memory operand is outside the accepted subset" % ext)
            reg = (modrm & 7) | (B << 3)
            if ext == 4:
                out.append({"mn": "jmp_reg", "off": start, "len": i + 2 - start, "reg": reg})
                i += 2
                break
            if ext == 2:
                out.append({"mn": "call_reg", "off": start, "len": i + 2 - start, "reg": reg})
                i += 2
                continue
            raise Undecodable("FF /%d is outside the accepted subset" % ext)
        if b == 0xC3:
            out.append({"mn": "ret", "off": start, "len": i + 1 - start})
            i += 1
            break
        if b == 0x90:
            out.append({"mn": "nop", "off": start, "len": i + 1 - start})
            i += 1
            continue
        if b == 0xE8:
            out.append({"mn": "call_rel", "off": start, "len": 5})
            i += 5
            continue
        if 0x50 <= b <= 0x5F:
            out.append({"mn": "push" if b < 0x58 else "pop", "off": start, "len": i + 1 - start, "reg": (b & 7) | (B << 3)})
            i += 1
            continue
        raise Undecodable("opcode %#04x at +%d is outside the accepted subset" % (b, start))
    return out, i


def simulate_x86(ins, code=None):
    """Returns dict: regs (name -> 64 abstract bits), written (set of names), transfer {kind, ...}, stack_effect, flags.
    `code`: the bytes written (needed when the sequence reads a literal out of itself)."""
    regs = {}
    written = []
    transfer = None
    stack = False
    flags = False
    calls = False
    for k in ins:
        mn = k["mn"]
        if mn == "mov_imm":
            regs[X86_REGS[k["reg"]]] = tuple(k["bits"])
            written.append(X86_REGS[k["reg"]])
            if k.get("flags"):
                flags = True
        elif mn == "mov_imm8":
            name = X86_REGS[k["reg"]]
            old = regs.get(name)
            if old is None:
                old = tuple(E("bit", (leaf("caller:" + name, 64), i), 1) for i in range(64))
            regs[name] = tuple(k["bits"]) + tuple(old[8:])
            written.append(name)
        elif mn == "nop":
            pass
        elif mn == "jmp_rel":
            transfer = {"kind": "jmp_rel", "imm": k["imm"], "immw": k["immw"], "end": k["off"] + k["len"]}
        elif mn == "jmp_reg":
            name = X86_REGS[k["reg"]]
            transfer = {"kind": "jmp_reg", "reg": name, "bits": regs.get(name)}
        elif mn == "jmp_mem_rip":
            addr = k["off"] + k["len"] + k["disp"]
            if code is None or addr < 0 or addr + 8 > len(code):
                raise Undecodable("jmp [rip%+d] at +%d reads its destination from [%d,%d), outside the %s written bytes" % (
                    k["disp"], k["off"], addr, addr + 8, len(code) if code is not None else "unknown"))
            transfer = {"kind": "jmp_reg", "reg": "[rip%+d]" % k["disp"], "bits": bits_of_bytes(code[addr:addr + 8]), "lit_off": addr}
        elif mn == "ret":
            transfer = {"kind": "ret"}
        elif mn in ("push", "pop"):
            stack = True
            if mn == "pop":
                written.append(X86_REGS[k["reg"]])
        elif mn in ("call_reg", "call_rel"):
            calls = True
            stack = True
        else:
            raise Undecodable("no semantics for " + mn)
    return {"regs": regs, "written": written, "transfer": transfer, "stack": stack, "flags": flags, "calls": calls}


# =============================================================================================== AArch64 (A64)

def a64_words(bs):
    if len(bs) % 4:
        raise Undecodable("A64 code length %d is not a multiple of 4" % len(bs))
    return [bits_of_bytes(bs[i:i + 4]) for i in range(0, len(bs), 4)]


def _match(bits, pattern):
    """pattern: string of 32 chars MSB first: '0','1' fixed, other = field. Returns True if fixed bits match (must be
    constants), raises nothing."""
    for i, ch in enumerate(pattern):
        b = bits[31 - i]
        if ch in "01":
            if not (b == 0 or b == 1):
                return None          # fixed bit not constant -> cannot classify
            if b != int(ch):
                return False
    return True


def _field(bits, hi, lo):
    return tuple(bits[lo:hi + 1])


A64_PATTERNS = [
    # name, pattern (MSB..LSB)
    ("nop",  "11010101000000110010000000011111"),
    ("movz", "s10100101hhiiiiiiiiiiiiiiiiddddd"),
    ("movk", "s11100101hhiiiiiiiiiiiiiiiiddddd"),
    ("movn", "s00100101hhiiiiiiiiiiiiiiiiddddd"),
    ("b",    "000101iiiiiiiiiiiiiiiiiiiiiiiiii"),
    ("bl",   "100101iiiiiiiiiiiiiiiiiiiiiiiiii"),
    ("br",   "1101011000011111000000nnnnn00000"),
    ("blr",  "1101011000111111000000nnnnn00000"),
    ("ret",  "1101011001011111000000nnnnn00000"),
    ("adrp", "1ii10000iiiiiiiiiiiiiiiiiiiddddd"),
    ("adr",  "0ii10000iiiiiiiiiiiiiiiiiiiddddd"),
    ("add_imm", "s00100010hiiiiiiiiiiiinnnnnddddd"),
    ("sub_imm", "s10100010hiiiiiiiiiiiinnnnnddddd"),
    ("orr_reg", "s0101010hh0mmmmmiiiiiinnnnnddddd"),
    ("ldr_lit", "0x011000iiiiiiiiiiiiiiiiiiittttt"),
]


def decode_a64(bs):
    out = []
    ended = False
    for wi, w in enumerate(a64_words(bs)):
        found = None
        for name, pat in A64_PATTERNS:
            m = _match(w, pat)
            if m is None:
                # cannot tell because a fixed bit is symbolic
                continue
            if m:
                found = name
                break
        if found is None and ended:
            out.append({"mn": "data", "off": wi * 4, "bits": w})          # after an unconditional transfer: never executed (a literal, padding)
            continue
        if found is None:
            raise Undecodable("A64 word %d (%s) matches no instruction of the accepted subset" % (
                wi, "".join(str(b) if b in (0, 1) else "?" for b in reversed(w))))
        rec = {"mn": found, "off": wi * 4, "bits": w}
        if found in ("movz", "movk", "movn"):
            rec["sf"] = const_field(_field(w, 31, 31), "sf")
            rec["hw"] = const_field(_field(w, 22, 21), "hw")
            rec["rd"] = const_field(_field(w, 4, 0), "Rd")
            rec["imm16"] = _field(w, 20, 5)
        elif found in ("b", "bl"):
            rec["imm26"] = _field(w, 25, 0)
        elif found in ("br", "blr", "ret"):
            rec["rn"] = const_field(_field(w, 9, 5), "Rn")
        elif found in ("adrp", "adr"):
            rec["rd"] = const_field(_field(w, 4, 0), "Rd")
            rec["immlo"] = _field(w, 30, 29)
            rec["immhi"] = _field(w, 23, 5)
        elif found in ("add_imm", "sub_imm"):
            rec["sf"] = const_field(_field(w, 31, 31), "sf")
            rec["sh"] = const_field(_field(w, 22, 22), "sh")
            rec["rd"] = const_field(_field(w, 4, 0), "Rd")
            rec["rn"] = const_field(_field(w, 9, 5), "Rn")
            rec["imm12"] = _field(w, 21, 10)
        elif found == "ldr_lit":
            rec["rd"] = rec["rt"] = const_field(_field(w, 4, 0), "Rt")
            rec["x"] = const_field(_field(w, 30, 30), "opc<0>")          # 1: 64-bit load, 0: 32-bit (zero-extended)
            rec["imm19"] = _field(w, 23, 5)
        out.append(rec)
        if found in ("b", "br", "ret"):
            ended = True
    return out


def simulate_a64(ins, pc_expr=None, code=None):
    """Straight-line semantics up to the first control transfer. Registers hold 64 abstract bits, or a symbolic
    record for ADRP/ADD results. Returns regs, written, transfer, executed (count), stack, calls."""
    regs = {}
    written = []
    transfer = None
    executed = 0
    calls = False
    for k in ins:
        mn = k["mn"]
        executed += 1
        if mn == "nop":
            continue
        if k.get("rd") == 31 or k.get("rn") == 31:
            # register number 31 is xzr in some of these encodings and sp in others; no patch sequence has a use for either
            raise Undecodable("A64 '%s' with register number 31 (xzr/sp)" % mn)
        if mn in ("movz", "movn", "movk"):
            sh = 16 * k["hw"]
            if not k["sf"] and sh >= 32:
                raise Undecodable("32-bit move-wide with hw>=2 is unallocated")
            name = "x%d" % k["rd"]
            if mn == "movz":
                v = [0] * 64
                v[sh:sh + 16] = k["imm16"]
            elif mn == "movn":
                v = [1] * 64
                v[sh:sh + 16] = [bit_not(b) for b in k["imm16"]]
                if not k["sf"]:
                    v[32:] = [0] * 32
            else:
                old = regs.get(name)
                if old is None or not isinstance(old, tuple):
                    old = tuple(E("bit", (leaf("caller:" + name, 64), i), 1) for i in range(64))
                v = list(old)
                v[sh:sh + 16] = k["imm16"]
                if not k["sf"]:
                    v[32:] = [0] * 32
            regs[name] = tuple(v)
            written.append(name)
            continue
        if mn == "adrp":
            name = "x%d" % k["rd"]
            regs[name] = {"kind": "adrp", "imm21": tuple(k["immlo"]) + tuple(k["immhi"]), "pc_off": k["off"]}
            written.append(name)
            continue
        if mn == "add_imm":
            name = "x%d" % k["rd"]
            src = regs.get("x%d" % k["rn"])
            if isinstance(src, dict) and src["kind"] == "adrp" and k["sf"] == 1 and k["sh"] == 0:
                regs[name] = {"kind": "adrp+add", "imm21": src["imm21"], "pc_off": src["pc_off"], "imm12": tuple(k["imm12"])}
            else:
                raise Undecodable("ADD (immediate) whose source is not a preceding ADRP result")
            written.append(name)
            continue
        if mn == "ldr_lit":
            # LDR Xt, <label>: a literal inside the written bytes (the classic `ldr x16, #8 ; br x16 ; .quad target` veneer)
            if not bits_const(k["imm19"]) or code is None:
                raise Undecodable("LDR (literal) whose offset is not constant")
            off = to_signed(const_field(k["imm19"], "imm19"), 19) * 4 + k["off"]
            n = 8 if k["x"] else 4
            if off < 0 or off + n > len(code):
                raise Undecodable("LDR (literal) at +%d reads [%d,%d), outside the %d written bytes" % (k["off"], off, off + n, len(code)))
            v = tuple(bits_of_bytes(code[off:off + n])) + (0,) * (64 - 8 * n)
            regs["x%d" % k["rt"]] = v
            written.append("x%d" % k["rt"])
            continue
        if mn == "b":
            transfer = {"kind": "b", "imm26": k["imm26"], "off": k["off"]}
            break
        if mn == "br":
            transfer = {"kind": "br", "reg": "x%d" % k["rn"], "val": regs.get("x%d" % k["rn"])}
            break
        if mn == "ret":
            transfer = {"kind": "ret", "reg": "x%d" % k["rn"]}
            break
        if mn in ("bl", "blr"):
            calls = True
            written.append("x30")
            transfer = {"kind": mn}
            break
        raise Undecodable("no semantics for A64 '%s' in a patch sequence" % mn)
    return {"regs": regs, "written": written, "transfer": transfer, "executed": executed, "calls": calls, "stack": False}


# =============================================================================================== ARM (A32 / T32)

def decode_a32(bs):
    out = []
    if len(bs) % 4:
        raise Undecodable("A32 code length not a multiple of 4")
    for wi in range(0, len(bs), 4):
        w = bits_of_bytes(bs[wi:wi + 4])
        top = w[20:32]
        if not bits_const(top):
            out.append({"mn": "data", "off": wi, "bits": w})
            continue
        v_hi = const_field(w[16:32], "A32 high half")
        cond = v_hi >> 12
        rec = None
        if bits_const(w):
            v = const_field(w, "A32 word")
            if v == 0xE1A00000 or v == 0xE320F000:
                rec = {"mn": "nop", "off": wi}
            elif (v & 0x0FFFFFF0) == 0x012FFF10:
                rec = {"mn": "bx", "off": wi, "rm": v & 15, "cond": cond}
            elif (v & 0x0F7F0000) == 0x051F0000:
                # LDR (literal) A1: cond 0101 U0 0 1 1111 Rt imm12
                rec = {"mn": "ldr_lit", "off": wi, "rt": (v >> 12) & 15, "u": (v >> 23) & 1, "imm": v & 0xFFF, "cond": cond, "pc_bias": 8}
            elif (v & 0x0FE00000) == 0x03A00000:
                rec = {"mn": "mov_imm", "off": wi, "rd": (v >> 12) & 15, "cond": cond}
        if rec is not None and rec.get("cond", 0xE) != 0xE:
            # the same word under another condition code executes only for some flag states (e.g. 0x012FFF1C = bxeq r12): whether the
            # transfer happens would depend on what the caller left in NZCV
            raise Undecodable("A32 word %#010x at +%d is `%s` under condition code %#x, not AL: it executes only for some caller flag states" % (
                v, wi, rec["mn"], rec["cond"]))
        if rec is None:
            rec = {"mn": "data", "off": wi, "bits": w}
        out.append(rec)
    return out


def decode_t32(bs):
    """Thumb stream: 16-bit units; 32-bit encodings when the first halfword's top five bits are 11101/11110/11111."""
    out = []
    i = 0
    n = len(bs)
    while i + 2 <= n:
        hw = bits_of_bytes(bs[i:i + 2])
        if not bits_const(hw):
            out.append({"mn": "data", "off": i, "len": 2, "bits": hw})
            i += 2
            continue
        v = const_field(hw, "T32 halfword")
        top5 = v >> 11
        if top5 in (0b11101, 0b11110, 0b11111):
            if i + 4 > n:
                out.append({"mn": "data", "off": i, "len": 2, "bits": hw})
                i += 2
                continue
            hw2 = bits_of_bytes(bs[i + 2:i + 4])
            if bits_const(hw2):
                v2 = const_field(hw2, "T32 second halfword")
                if (v & 0xFF7F) == 0xF85F:
                    out.append({"mn": "ldr_lit", "off": i, "len": 4, "rt": v2 >> 12, "u": (v >> 7) & 1, "imm": v2 & 0xFFF, "pc_bias": 4})
                    i += 4
                    continue
            out.append({"mn": "data", "off": i, "len": 4, "bits": hw + hw2})
            i += 4
            continue
        if v == 0x46C0:
            out.append({"mn": "nop", "off": i, "len": 2})            # mov r8, r8: the NOP of every Thumb instruction set
        elif v == 0xBF00:
            out.append({"mn": "nop_hint", "off": i, "len": 2})       # NOP hint: ARMv6T2 and later only, UNDEFINED on Thumb-1 cores
        elif (v & 0xF800) == 0x4800:
            out.append({"mn": "ldr_lit", "off": i, "len": 2, "rt": (v >> 8) & 7, "u": 1, "imm": (v & 0xFF) * 4, "pc_bias": 4})
        elif (v & 0xFF87) == 0x4700:
            out.append({"mn": "bx", "off": i, "len": 2, "rm": (v >> 3) & 15})
        elif (v & 0xFF87) == 0x4780:
            out.append({"mn": "blx", "off": i, "len": 2, "rm": (v >> 3) & 15})
        elif (v & 0xFF00) == 0x4600:
            rd = (v & 7) | ((v >> 4) & 8)
            rm = (v >> 3) & 15
            out.append({"mn": "mov_reg", "off": i, "len": 2, "rd": rd, "rm": rm})
        else:
            out.append({"mn": "data", "off": i, "len": 2, "bits": hw})
        i += 2
    return out


def simulate_arm(ins, thumb, base_mod4, code_bytes):
    """Execute from offset 0. `base_mod4` is the patch address modulo 4 (0 or 2). Returns regs (name -> 32 abstract
    bits loaded), written, transfer. The literal load reads code_bytes at Align(PC,4) +/- imm relative to the patch."""
    regs = {}
    written = []
    transfer = None
    executed = []
    pos = 0
    byoff = {k["off"]: k for k in ins}
    steps = 0
    while pos in byoff and steps < 16:
        steps += 1
        k = byoff[pos]
        ln = k.get("len", 4)
        mn = k["mn"]
        executed.append(k)
        if mn in ("nop", "nop_hint"):
            pos += ln
            continue
        if mn == "mov_reg":
            if k["rd"] == k["rm"]:
                pos += ln
                continue
            raise Undecodable("register move r%d <- r%d in a patch sequence" % (k["rd"], k["rm"]))
        if mn == "ldr_lit":
            pc = pos + k["pc_bias"]
            # Align(PC, 4) relative to the patch base: (base_mod4 + pc) rounded down to a multiple of 4, minus base_mod4
            aligned = ((base_mod4 + pc) & ~3) - base_mod4
            addr = aligned + k["imm"] if k["u"] else aligned - k["imm"]
            if addr < 0 or addr + 4 > len(code_bytes):
                raise Undecodable("literal load at +%d reads [%d,%d) outside the %d written bytes" % (pos, addr, addr + 4, len(code_bytes)))
            if k["rt"] == 15:
                # LDR pc, [pc, #imm]: an interworking branch to the loaded word (ARMv5T and later), no scratch register involved
                transfer = {"kind": "bx", "reg": "pc", "bits": bits_of_bytes(code_bytes[addr:addr + 4]), "off": pos, "lit_off": addr}
                break
            regs["r%d" % k["rt"]] = bits_of_bytes(code_bytes[addr:addr + 4])
            regs["_lit_off_r%d" % k["rt"]] = addr
            written.append("r%d" % k["rt"])
            pos += ln
            continue
        if mn == "bx":
            transfer = {"kind": "bx", "reg": "r%d" % k["rm"], "bits": regs.get("r%d" % k["rm"]), "off": pos}
            break
        if mn == "blx":
            transfer = {"kind": "blx", "reg": "r%d" % k["rm"]}
            written.append("lr")
            break
        if mn == "data":
            raise Undecodable("execution reaches non-instruction bytes at +%d" % pos)
        raise Undecodable("no semantics for ARM '%s'" % mn)
    return {"regs": regs, "written": written, "transfer": transfer, "executed": executed}
