"""Models of the closed set of std/core functions the crate calls (DESIGN 2.1 'closed world').

A model receives abstract arguments and returns an abstract result (or Fork / DIVERGE / Enter). Anything not
modelled here becomes an opaque 'ext' event with a fresh symbolic result, and every `&mut` argument handed to it
is havocked – the analysis never guesses what an unknown callee does.
"""
import copy
from .expr import *
from .interp import (Adt, Arr, Tup, VecV, Ref, SliceRef, SymSlice, RawSlice, Opaque, IterV, FnVal, ClosureV, UNIT, UNINIT,
                     Fork, DIVERGE, Enter, Unsupported, get_path, set_path, Cell, int_info)

MODELS = {}
SHIMS = {}


def model(*names):
    def deco(f):
        for n in names:
            MODELS[n] = f
        return f
    return deco


def deref(v):
    if isinstance(v, Ref):
        return get_path(v.cell.val, v.path)
    return v


def store(ref, val):
    ref.cell.val = set_path(ref.cell.val, ref.path, val)


def usize(m, v):
    return int_const(v, m.ptr_bits)


def some(v):
    return Adt("std::option::Option", 1, "Some", [v], ["0"])


def none():
    return Adt("std::option::Option", 0, "None", [], [])


def slice_elems(m, s):
    """Concrete element list of a SliceRef / Ref-to-array / Ref-to-Vec, or None when symbolic."""
    if isinstance(s, SliceRef):
        base = get_path(s.base.cell.val, s.base.path)
        if isinstance(base, (Arr,)):
            return base.elems[s.start:s.start + s.n]
        if isinstance(base, VecV) and base.elems is not None:
            return base.elems[s.start:s.start + s.n]
        return None
    if isinstance(s, Ref):
        t = deref(s)
        if isinstance(t, Arr):
            return t.elems
        if isinstance(t, VecV) and t.elems is not None:
            return t.elems
    return None


def slice_len(m, s):
    if isinstance(s, SliceRef):
        return usize(m, s.n)
    if isinstance(s, SymSlice):
        return s.len
    if isinstance(s, Ref):
        t = deref(s)
        if isinstance(t, Arr):
            return usize(m, len(t.elems))
        if isinstance(t, VecV):
            return t.length(m.ptr_bits)
    if isinstance(s, Opaque):
        return Int(m.ptr_bits, False, E("slice_len", (s.e,), m.ptr_bits))
    raise Unsupported("len of %r" % (s,))


def as_symslice(m, s):
    """Describe any slice-like value as (content expr | list of elems, ptr Int | tracked ref, len Int)."""
    if isinstance(s, SymSlice):
        return s
    raise Unsupported("not a symbolic slice: %r" % (s,))


# ------------------------------------------------------------------------------------------------ Vec

@model("std::vec::Vec::<T>::new")
def vec_new(m, st, ctx, args, span):
    return VecV(elems=[], cap=usize(m, 0))


@model("std::vec::Vec::<T>::with_capacity")
def vec_with_capacity(m, st, ctx, args, span):
    return VecV(elems=[], cap=args[0])


@model("std::vec::from_elem")
def vec_from_elem(m, st, ctx, args, span):
    elem, n = args
    if isinstance(n, Int) and n.is_const() and n.cval() <= 4096:
        return VecV(elems=[copy.deepcopy(elem) for _ in range(n.cval())], cap=n)
    ee = elem.e if isinstance(elem, Int) else E("val", (repr(elem),))
    return VecV(content=E("repeat", (ee, n.e)), length=n, cap=n)


@model("std::vec::Vec::<T, A>::push")
def vec_push(m, st, ctx, args, span):
    r, v = args
    vec = deref(r)
    if not isinstance(vec, VecV) or vec.elems is None:
        if isinstance(vec, (VecV, Opaque)):
            m.event(st, "vec_push", "Vec::push", [Opaque(vec.content if isinstance(vec, VecV) else vec.e), v], None, span)
            if isinstance(vec, VecV):
                n = vec.len
                store(r, VecV(content=E("pushed", (vec.content, E("val", (repr(v),)))), length=Int(n.w, False, binop("add", n.e, const(1, n.w), n.w)), cap=vec.cap))
            return UNIT
        raise Unsupported("push on %r" % (vec,))
    store(r, VecV(elems=vec.elems + [v], cap=vec.cap))
    return UNIT


@model("std::vec::Vec::<T, A>::insert", "std::collections::VecDeque::<T, A>::push_front", "std::collections::VecDeque::<T, A>::push_back")
def vec_insert(m, st, ctx, args, span):
    # insertion into a symbolic sequence: recorded as an `ext` event whose first argument is the container's content expression
    r, v = args[0], args[-1]
    vec = deref(r)
    if isinstance(vec, VecV) and vec.elems is None:
        m.event(st, "ext", ctx.name, [Opaque(vec.content)] + list(args[1:]), None, span)
        n = vec.len
        store(r, VecV(content=E("inserted", (vec.content, E("val", (repr(v),)))), length=Int(n.w, False, binop("add", n.e, const(1, n.w), n.w)), cap=vec.cap))
        return UNIT
    if isinstance(vec, Opaque):
        m.event(st, "ext", ctx.name, [Opaque(vec.e)] + list(args[1:]), None, span)
        return UNIT
    raise Unsupported("insert on %r" % (vec,))


@model("std::vec::Vec::<T, A>::reserve", "std::vec::Vec::<T, A>::reserve_exact", "std::vec::Vec::<T, A>::shrink_to_fit",
       "std::vec::Vec::<T, A>::shrink_to")
def vec_reserve(m, st, ctx, args, span):
    return UNIT          # capacity only: contents and length are unchanged


@model("std::vec::Vec::<T, A>::set_len")
def vec_set_len(m, st, ctx, args, span):
    r, n = args
    vec = deref(r)
    if isinstance(vec, VecV):
        if vec.elems is not None:
            if n.is_const() and n.cval() <= len(vec.elems):
                store(r, VecV(elems=vec.elems[:n.cval()], cap=vec.cap))
                return UNIT
            if not vec.elems:
                store(r, VecV(content=E("uninit_vec", ()), length=n, cap=vec.cap))
                return UNIT
        else:
            store(r, VecV(content=vec.content, length=n, cap=vec.cap))
            return UNIT
    raise Unsupported("set_len on %r" % (vec,))


@model("std::vec::Vec::<T, A>::extend_from_slice")
def vec_extend(m, st, ctx, args, span):
    r, s = args
    vec = deref(r)
    el = slice_elems(m, s)
    if not isinstance(vec, VecV) or vec.elems is None or el is None:
        raise Unsupported("extend_from_slice on %r with %r" % (vec, s))
    store(r, VecV(elems=vec.elems + list(el), cap=vec.cap))
    return UNIT


@model("std::vec::Vec::<T, A>::len")
def vec_len(m, st, ctx, args, span):
    vec = deref(args[0])
    if isinstance(vec, VecV):
        return vec.length(m.ptr_bits)
    if isinstance(vec, Opaque):
        return Int(m.ptr_bits, False, E("vec_len", (vec.e,), m.ptr_bits))
    raise Unsupported("len of %r" % (vec,))


@model("std::vec::Vec::<T, A>::as_mut_ptr", "std::vec::Vec::<T, A>::as_ptr")
def vec_as_mut_ptr(m, st, ctx, args, span):
    r = args[0]
    vec = deref(r)
    if isinstance(vec, VecV) and isinstance(r, Ref):
        return Ref(r.cell, r.path, True)          # pointer to the tracked buffer
    raise Unsupported("as_mut_ptr of %r" % (vec,))


def vec_as_slice(m, r):
    vec = deref(r)
    if isinstance(vec, VecV):
        if vec.elems is not None:
            return SliceRef(Ref(r.cell, r.path, r.mut), 0, len(vec.elems), r.mut)
        return SymSlice(vec.content, Int(m.ptr_bits, False, E("vec_ptr", (vec.content,), m.ptr_bits)), vec.len)
    raise Unsupported("slice of %r" % (vec,))


@model("<std::vec::Vec<T, A> as std::ops::Deref>::deref", "<std::vec::Vec<T, A> as std::ops::DerefMut>::deref_mut",
       "std::vec::Vec::<T, A>::as_slice", "std::vec::Vec::<T, A>::as_mut_slice")
def vec_deref(m, st, ctx, args, span):
    return vec_as_slice(m, args[0])


def range_bounds(m, rng, n_total):
    """(start, end) Ints of a range value applied to a sequence of length n_total (Int)."""
    if isinstance(rng, Adt):
        p = rng.path
        if p == "std::ops::Range":
            return rng.fields[0], rng.fields[1]
        if p == "std::ops::RangeTo":
            return usize(m, 0), rng.fields[0]
        if p == "std::ops::RangeFrom":
            return rng.fields[0], n_total
        if p == "std::ops::RangeFull":
            return usize(m, 0), n_total
        if p == "std::ops::RangeInclusive":
            e = rng.fields[1]
            return rng.fields[0], Int(e.w, e.signed, binop("add", e.e, const(1, e.w), e.w))
        if p == "std::ops::RangeToInclusive":
            e = rng.fields[0]
            return usize(m, 0), Int(e.w, e.signed, binop("add", e.e, const(1, e.w), e.w))
    raise Unsupported("range %r" % (rng,))


def index_slice(m, st, s, idx, mut, span):
    """s[idx] for slice-like s (SliceRef | SymSlice | Ref to Arr/Vec)."""
    if isinstance(s, Ref):
        t = deref(s)
        if isinstance(t, Arr):
            s = SliceRef(s, 0, len(t.elems), s.mut)
        elif isinstance(t, VecV):
            s = vec_as_slice(m, s)
        else:
            raise Unsupported("index of %r" % (t,))
    if isinstance(idx, Int):
        if isinstance(s, SliceRef) and idx.is_const():
            if idx.cval() >= s.n:
                return DIVERGE
            return Ref(s.base.cell, s.base.path + (("i", s.start + idx.cval()),), mut)
        raise Unsupported("element index %r of %r" % (idx, s))
    n_total = slice_len(m, s)
    a, b = range_bounds(m, idx, n_total)
    if isinstance(s, SliceRef):
        if a.is_const() and b.is_const():
            if not (a.cval() <= b.cval() <= s.n):
                m.event(st, "diverge", "slice index out of range", [], None, span)
                return DIVERGE
            return SliceRef(s.base, s.start + a.cval(), b.cval() - a.cval(), mut or s.mut)
        raise Unsupported("non-constant range index into tracked slice: %r..%r" % (a, b))
    if isinstance(s, SymSlice):
        # symbolic sub-slice; the bounds check `b <= len` may panic: recorded as an event for C05's table
        m.event(st, "bounds_check", "slice_index", [a, b, s.len], None, span)
        ln = Int(m.ptr_bits, False, binop("sub", b.e, a.e, m.ptr_bits))
        ptr = Int(m.ptr_bits, False, binop("add", s.ptr.e, a.e, m.ptr_bits))
        content = s.content if (a.is_const() and a.cval() == 0) else E("subslice", (s.content, a.e))
        return SymSlice(E("prefix", (content, ln.e)) if True else content, ptr, ln)
    raise Unsupported("range index of %r" % (s,))


@model("<std::vec::Vec<T, A> as std::ops::Index<I>>::index", "std::array::<impl std::ops::Index<I> for [T; N]>::index",
       "core::slice::index::<impl std::ops::Index<I> for [T]>::index")
def idx_index(m, st, ctx, args, span):
    return index_slice(m, st, args[0], args[1], False, span)


@model("<std::vec::Vec<T, A> as std::ops::IndexMut<I>>::index_mut", "std::array::<impl std::ops::IndexMut<I> for [T; N]>::index_mut",
       "core::slice::index::<impl std::ops::IndexMut<I> for [T]>::index_mut")
def idx_index_mut(m, st, ctx, args, span):
    return index_slice(m, st, args[0], args[1], True, span)


@model("std::convert::AsRef::as_ref", "<std::vec::Vec<T, A> as std::convert::AsRef<[T]>>::as_ref", "<[T; N] as std::convert::AsRef<[T]>>::as_ref",
       "<[T] as std::convert::AsRef<[T]>>::as_ref", "std::convert::AsMut::as_mut", "std::borrow::Borrow::borrow")
def m_as_ref_slice(m, st, ctx, args, span):
    # AsRef<[T]> of a vector, an array or a slice: the same elements viewed as a slice (dispatch on the value, the callee may be generic)
    r = args[0]
    for _ in range(3):
        if isinstance(r, (SliceRef, SymSlice)):
            return r
        if isinstance(r, Ref):
            t = deref(r)
            if isinstance(t, VecV):
                return vec_as_slice(m, r)
            if isinstance(t, Arr):
                return SliceRef(r, 0, len(t.elems), r.mut)
            r = t
            continue
        break
    raise Unsupported("AsRef::as_ref of %r" % (args[0],))


@model("std::vec::Vec::<T, A>::into_boxed_slice", "std::slice::<impl [T]>::into_vec")
def m_vec_boxed_roundtrip(m, st, ctx, args, span):
    # Vec<T> <-> Box<[T]>: the same elements; a boxed slice is tracked like the vector it came from
    return args[0]


@model("std::slice::<impl [T]>::to_vec")
def slice_to_vec(m, st, ctx, args, span):
    s = args[0]
    el = slice_elems(m, s)
    if el is not None:
        return VecV(elems=list(el), cap=usize(m, len(el)))
    if isinstance(s, SymSlice):
        return VecV(content=s.content, length=s.len, cap=s.len)
    raise Unsupported("to_vec of %r" % (s,))


# ------------------------------------------------------------------------------------------------ slices

@model("core::slice::<impl [T]>::len")
def m_slice_len(m, st, ctx, args, span):
    return slice_len(m, args[0])


@model("core::slice::<impl [T]>::as_ptr", "core::slice::<impl [T]>::as_mut_ptr")
def m_slice_as_ptr(m, st, ctx, args, span):
    s = args[0]
    if isinstance(s, SliceRef):
        return s                      # pointer to tracked window
    if isinstance(s, SymSlice):
        return s.ptr
    if isinstance(s, Opaque):
        return Int(m.ptr_bits, False, E("slice_ptr", (s.e,), m.ptr_bits))
    raise Unsupported("as_ptr of %r" % (s,))


@model("core::slice::<impl [T]>::copy_from_slice")
def m_copy_from_slice(m, st, ctx, args, span):
    d, s = args
    if isinstance(d, RawSlice):
        # from_raw_parts_mut(ptr, n).copy_from_slice(src): a raw copy of n bytes to ptr (it panics unless n == src.len())
        slen = slice_len(m, s)
        from . import guards as _g
        if not _g.same(slen.e, d.len.e):
            raise Unsupported("copy_from_slice into raw memory: lengths %s / %s are not the same expression" % (fmt(d.len.e), fmt(slen.e)))
        p_ = m_slice_as_ptr(m, st, ctx, [s], span) if not isinstance(s, Ref) else s
        sk, sp = describe_src(m, p_)
        extra = {"dst": d.ptr, "count": d.len, "src_kind": sk, "src": sp, "src_len": slen}
        if sk == "addr":
            extra["src_ptr"] = p_
        if isinstance(s, SymSlice):
            extra["src_sym"] = s.content
        m.event(st, "raw_write", ctx.name, [p_, d.ptr, d.len], None, span, extra=extra)
        return UNIT
    el = slice_elems(m, s)
    if not isinstance(d, SliceRef) or el is None:
        raise Unsupported("copy_from_slice %r <- %r" % (d, s))
    if len(el) != d.n:
        m.event(st, "diverge", "copy_from_slice length mismatch", [], None, span)
        return DIVERGE
    base = get_path(d.base.cell.val, d.base.path)
    if isinstance(base, Arr):
        ne = list(base.elems)
        ne[d.start:d.start + d.n] = list(el)
        d.base.cell.val = set_path(d.base.cell.val, d.base.path, Arr(ne))
    elif isinstance(base, VecV) and base.elems is not None:
        ne = list(base.elems)
        ne[d.start:d.start + d.n] = list(el)
        d.base.cell.val = set_path(d.base.cell.val, d.base.path, VecV(elems=ne, cap=base.cap))
    else:
        raise Unsupported("copy_from_slice into %r" % (base,))
    return UNIT


@model("core::slice::<impl [T]>::rotate_right")
def m_rotate_right(m, st, ctx, args, span):
    d, k = args
    if not isinstance(d, SliceRef) or not (isinstance(k, Int) and k.is_const()):
        raise Unsupported("rotate_right %r by %r" % (d, k))
    base = get_path(d.base.cell.val, d.base.path)
    ne = list(base.elems)
    win = ne[d.start:d.start + d.n]
    kk = k.cval()
    if kk > d.n:
        return DIVERGE
    win = win[d.n - kk:] + win[:d.n - kk] if d.n else win
    ne[d.start:d.start + d.n] = win
    new = Arr(ne) if isinstance(base, Arr) else VecV(elems=ne, cap=base.cap)
    d.base.cell.val = set_path(d.base.cell.val, d.base.path, new)
    return UNIT


@model("core::slice::<impl [T]>::rotate_left")
def m_rotate_left(m, st, ctx, args, span):
    d, k = args
    if not isinstance(d, SliceRef) or not (isinstance(k, Int) and k.is_const()):
        raise Unsupported("rotate_left %r by %r" % (d, k))
    base = get_path(d.base.cell.val, d.base.path)
    ne = list(base.elems)
    win = ne[d.start:d.start + d.n]
    kk = k.cval()
    if kk > d.n:
        return DIVERGE
    win = win[kk:] + win[:kk]
    ne[d.start:d.start + d.n] = win
    new = Arr(ne) if isinstance(base, Arr) else VecV(elems=ne, cap=base.cap)
    d.base.cell.val = set_path(d.base.cell.val, d.base.path, new)
    return UNIT


@model("core::slice::<impl [T]>::fill")
def m_fill(m, st, ctx, args, span):
    d, v = args
    if not isinstance(d, SliceRef):
        raise Unsupported("fill on %r" % (d,))
    base = get_path(d.base.cell.val, d.base.path)
    ne = list(base.elems)
    for k in range(d.start, d.start + d.n):
        ne[k] = copy.deepcopy(v)
    new = Arr(ne) if isinstance(base, Arr) else VecV(elems=ne, cap=base.cap)
    d.base.cell.val = set_path(d.base.cell.val, d.base.path, new)
    return UNIT


@model("core::slice::<impl [T]>::copy_within")
def m_copy_within(m, st, ctx, args, span):
    d, rng, dest = args
    if not isinstance(d, SliceRef) or not (isinstance(dest, Int) and dest.is_const()):
        raise Unsupported("copy_within on %r" % (d,))
    a, b = range_bounds(m, rng, usize(m, d.n))
    if not (a.is_const() and b.is_const()):
        raise Unsupported("copy_within with symbolic range")
    a, b, t = a.cval(), b.cval(), dest.cval()
    if not (a <= b <= d.n and t + (b - a) <= d.n):
        return DIVERGE
    base = get_path(d.base.cell.val, d.base.path)
    ne = list(base.elems)
    win = ne[d.start + a:d.start + b]
    ne[d.start + t:d.start + t + len(win)] = win
    new = Arr(ne) if isinstance(base, Arr) else VecV(elems=ne, cap=base.cap)
    d.base.cell.val = set_path(d.base.cell.val, d.base.path, new)
    return UNIT


@model("core::slice::<impl [T]>::chunks_exact_mut", "core::slice::<impl [T]>::chunks_exact", "core::slice::<impl [T]>::chunks_mut",
       "core::slice::<impl [T]>::chunks")
def m_chunks(m, st, ctx, args, span):
    d, n = args
    if isinstance(d, Ref):
        t = deref(d)
        d = SliceRef(d, 0, len(t.elems), d.mut)
    if not isinstance(d, SliceRef) or not (isinstance(n, Int) and n.is_const() and n.cval() > 0):
        raise Unsupported("chunks on %r" % (d,))
    exact = "exact" in ctx.name
    return IterV("chunks", d, 0, (n.cval(), exact))


@model("std::iter::Iterator::copied", "std::iter::Iterator::cloned")
def m_iter_copied(m, st, ctx, args, span):
    # the elements the analysis follows through iterators are scalars (Copy): the adapter yields the same values
    it = args[0]
    if isinstance(it, IterV) or (isinstance(it, Adt) and it.path.startswith("__iter::")):
        return _adapter("Copied", [it], ["iter"])          # yields *x for every &x of the inner iterator (shim copied_next)
    raise Unsupported("copied/cloned of %r" % (it,))


@model("std::iter::Iterator::zip")
def m_zip(m, st, ctx, args, span):
    a, b = args
    if isinstance(b, Arr):
        c = Cell(b, name="zip")
        b = IterV("array", SliceRef(Ref(c), 0, len(b.elems)), 0)
    elif isinstance(b, SliceRef):
        b = IterV("slice_mut" if b.mut else "slice", b, 0)
    elif isinstance(b, Ref) and isinstance(deref(b), Arr):
        b = IterV("slice_mut" if b.mut else "slice", SliceRef(b, 0, len(deref(b).elems), b.mut), 0)
    if not (isinstance(a, IterV) and isinstance(b, IterV)):
        def lazy(x, d=0):
            if d > 4:
                return False
            if isinstance(x, IterV):
                return isinstance(x.a, SliceRef) or lazy(x.a, d + 1)
            if isinstance(x, Adt) and x.path.startswith("__iter::"):
                return lazy(x.fields[0], d + 1) and (x.path != "__iter::Zip" or lazy(x.fields[1], d + 1))
            return False
        if lazy(a) and lazy(b):
            return _adapter("Zip", [a, b], ["a", "b"])
        raise Unsupported("zip of %r and %r" % (a, b))
    return IterV("zip", a, b)


@model("std::ptr::const_ptr::<impl *const T>::cast_mut", "std::ptr::mut_ptr::<impl *mut T>::cast_const", "std::ptr::const_ptr::<impl *const T>::cast",
       "std::ptr::mut_ptr::<impl *mut T>::cast")
def m_ptr_cast(m, st, ctx, args, span):
    return args[0]


@model("__shim::generic_const")
def m_shim_generic_const(m, st, ctx, args, span):
    k = args[0].cval()
    consts = [g[1] for g in ctx.fr.gmap.get("__gargs", []) if g[0] == "const"]
    if k < len(consts) and isinstance(consts[k], int):
        return usize(m, consts[k])
    raise Unsupported("generic constant #%d of the shim is not a known integer" % k)


@model("__shim::arr_new")
def m_shim_arr_new(m, st, ctx, args, span):
    return Arr([])


@model("__shim::arr_push")
def m_shim_arr_push(m, st, ctx, args, span):
    r, v = args
    a = deref(r)
    store(r, Arr(a.elems + [v]))
    return UNIT


@model("core::slice::<impl [T]>::iter")
def m_slice_iter(m, st, ctx, args, span):
    s = args[0]
    if isinstance(s, Ref):
        t = deref(s)
        s = SliceRef(s, 0, len(t.elems), False)
    if not isinstance(s, SliceRef):
        raise Unsupported("iter over %r" % (s,))
    return IterV("slice", s, 0)


@model("core::slice::<impl [T]>::iter_mut")
def m_slice_iter_mut(m, st, ctx, args, span):
    s = args[0]
    if isinstance(s, Ref):
        t = deref(s)
        s = SliceRef(s, 0, len(t.elems), True)
    if not isinstance(s, SliceRef):
        raise Unsupported("iter_mut over %r" % (s,))
    return IterV("slice_mut", s, 0)


@model("std::iter::Iterator::enumerate")
def m_enumerate(m, st, ctx, args, span):
    return IterV("enumerate", args[0], 0)


@model("std::iter::Iterator::rev")
def m_rev(m, st, ctx, args, span):
    it = args[0]
    if isinstance(it, IterV) and it.kind in ("slice", "array") and it.b == 0:
        return IterV("slice_rev", it.a, 0, it.kind)
    if isinstance(it, Adt) and it.path == "std::ops::Range" and all(isinstance(f, Int) and f.is_const() for f in it.fields):
        return IterV("range_rev", it.fields[0], it.fields[1])
    raise Unsupported("Iterator::rev of %r" % (it,))


@model("<I as std::iter::IntoIterator>::into_iter", "core::slice::iter::<impl std::iter::IntoIterator for &'a [T]>::into_iter",
       "core::slice::iter::<impl std::iter::IntoIterator for &'a mut [T]>::into_iter",
       "std::array::<impl std::iter::IntoIterator for &'a [T; N]>::into_iter",
       "std::array::<impl std::iter::IntoIterator for &'a mut [T; N]>::into_iter",
       "<std::iter::Rev<I> as std::iter::IntoIterator>::into_iter",
       "std::array::iter::<impl std::iter::IntoIterator for [T; N]>::into_iter", "<std::vec::Vec<T, A> as std::iter::IntoIterator>::into_iter")
def m_into_iter(m, st, ctx, args, span):
    v = args[0]
    if isinstance(v, IterV):
        return v
    if isinstance(v, Adt) and (v.path == "std::ops::Range" or v.path.startswith("__iter::")):
        return v
    if isinstance(v, SliceRef):
        return IterV("slice_mut" if v.mut else "slice", v, 0)
    if isinstance(v, Ref):
        t = deref(v)
        if isinstance(t, Arr):
            return IterV("slice_mut" if v.mut else "slice", SliceRef(v, 0, len(t.elems), v.mut), 0)
    if isinstance(v, Arr):
        c = Cell(v, name="into_iter")
        return IterV("array", SliceRef(Ref(c), 0, len(v.elems)), 0)
    raise Unsupported("into_iter of %r" % (v,))


def iter_next(m, it_ref):
    it = deref(it_ref)
    if isinstance(it, IterV):
        if it.kind in ("slice", "slice_mut", "array"):
            s, pos = it.a, it.b
            if pos >= s.n:
                return none()
            store(it_ref, IterV(it.kind, s, pos + 1))
            r = Ref(s.base.cell, s.base.path + (("i", s.start + pos),), it.kind == "slice_mut")
            if it.kind == "array":
                return some(get_path(r.cell.val, r.path))
            return some(r)
        if it.kind == "chunks":
            sl, pos, (n, exact) = it.a, it.b, it.c
            if pos >= sl.n or (exact and pos + n > sl.n):
                return none()
            ln = min(n, sl.n - pos)
            store(it_ref, IterV("chunks", sl, pos + ln, (n, exact)))
            return some(SliceRef(sl.base, sl.start + pos, ln, sl.mut))
        if it.kind == "zip":
            ca, cb = Cell(it.a), Cell(it.b)
            na = iter_next(m, Ref(ca, (), True))
            if na.variant == 0:
                return none()
            nb = iter_next(m, Ref(cb, (), True))
            if nb.variant == 0:
                return none()
            store(it_ref, IterV("zip", ca.val, cb.val))
            return some(Tup([na.fields[0], nb.fields[0]]))
        if it.kind == "enumerate":
            inner_cell = Cell(it.a)
            nxt = iter_next(m, Ref(inner_cell, (), True))
            if nxt.variant == 0:
                return none()
            cnt = it.b
            store(it_ref, IterV("enumerate", inner_cell.val, cnt + 1))
            return some(Tup([usize(m, cnt), nxt.fields[0]]))
    if isinstance(it, IterV) and it.kind == "slice_rev":
        s_, pos = it.a, it.b
        if pos >= s_.n:
            return none()
        store(it_ref, IterV("slice_rev", s_, pos + 1, it.c))
        r = Ref(s_.base.cell, s_.base.path + (("i", s_.start + s_.n - 1 - pos),), False)
        return some(get_path(r.cell.val, r.path)) if it.c == "array" else some(r)
    if isinstance(it, IterV) and it.kind == "range_rev":
        a, b = it.a, it.b
        av, bv = (a.sval(), b.sval()) if a.signed else (a.cval(), b.cval())
        if av >= bv:
            return none()
        nb = int_const(bv - 1, b.w, b.signed)
        store(it_ref, IterV("range_rev", a, nb))
        return some(nb)
    if isinstance(it, IterV) and it.kind == "once":
        if it.b:
            return none()
        store(it_ref, IterV("once", it.a, True))
        return some(it.a)
    if isinstance(it, IterV) and it.kind == "stepby":
        # StepBy: the first element, then every step-th one
        inner_cell = Cell(it.a)
        ir = Ref(inner_cell, (), True)
        step, first = it.b, it.c
        if not first:
            for _ in range(step - 1):
                if iter_next(m, ir).variant == 0:
                    store(it_ref, IterV("stepby", inner_cell.val, step, False))
                    return none()
        nxt = iter_next(m, ir)
        store(it_ref, IterV("stepby", inner_cell.val, step, False))
        return nxt
    if isinstance(it, Adt) and it.path == "std::ops::Range":
        a, b = it.fields
        if a.is_const() and b.is_const():
            av, bv = (a.sval(), b.sval()) if a.signed else (a.cval(), b.cval())
            if av >= bv:
                return none()
            store(it_ref, Adt(it.path, 0, it.vname, [int_const(av + 1, a.w, a.signed), b], it.fnames))
            return some(a)
        raise Unsupported("Range::next with non-constant bounds %r" % (it,))
    raise Unsupported("next on %r" % (it,))


@model("std::iter::Iterator::step_by")
def m_step_by(m, st, ctx, args, span):
    it, n = args
    if not (isinstance(n, Int) and n.is_const() and n.cval() > 0):
        raise Unsupported("step_by with a non-constant or zero step")
    return IterV("stepby", it, n.cval(), True)


@model("<std::iter::Enumerate<I> as std::iter::Iterator>::next", "<std::iter::StepBy<I> as std::iter::Iterator>::next",
       "<std::iter::Rev<I> as std::iter::Iterator>::next",
       "<std::slice::Iter<'a, T> as std::iter::Iterator>::next",
       "<std::slice::IterMut<'a, T> as std::iter::Iterator>::next",
       "std::iter::range::<impl std::iter::Iterator for std::ops::Range<A>>::next",
       "<std::array::IntoIter<T, N> as std::iter::Iterator>::next", "__shim::next",
       "<std::iter::Zip<A, B> as std::iter::Iterator>::next", "<std::slice::ChunksExactMut<'a, T> as std::iter::Iterator>::next",
       "<std::iter::Copied<I> as std::iter::Iterator>::next", "<std::iter::Cloned<I> as std::iter::Iterator>::next",
       "<std::slice::ChunksExact<'a, T> as std::iter::Iterator>::next", "<std::slice::ChunksMut<'a, T> as std::iter::Iterator>::next",
       "<std::slice::Chunks<'a, T> as std::iter::Iterator>::next")
def m_iter_next(m, st, ctx, args, span):
    return iter_next(m, args[0])


# ------------------------------------------------------------------------------------------------ numbers

@model("core::num::<impl i32>::to_le_bytes", "core::num::<impl u32>::to_le_bytes", "core::num::<impl u64>::to_le_bytes",
       "core::num::<impl i64>::to_le_bytes", "core::num::<impl u16>::to_le_bytes", "core::num::<impl usize>::to_le_bytes",
       "core::num::<impl u8>::to_le_bytes", "core::num::<impl i16>::to_le_bytes", "core::num::<impl isize>::to_le_bytes",
       "core::num::<impl u32>::to_ne_bytes", "core::num::<impl u64>::to_ne_bytes", "core::num::<impl i32>::to_ne_bytes")
def m_to_le_bytes(m, st, ctx, args, span):
    return Arr(bytes_of(args[0]))


@model("core::num::<impl u32>::to_be_bytes", "core::num::<impl u64>::to_be_bytes", "core::num::<impl i32>::to_be_bytes")
def m_to_be_bytes(m, st, ctx, args, span):
    return Arr(list(reversed(bytes_of(args[0]))))


@model("core::num::<impl i64>::wrapping_sub", "core::num::<impl i128>::wrapping_sub", "core::num::<impl u64>::wrapping_sub",
       "core::num::<impl usize>::wrapping_sub", "core::num::<impl isize>::wrapping_sub", "core::num::<impl u32>::wrapping_sub",
       "core::num::<impl i32>::wrapping_sub")
def m_wrapping_sub(m, st, ctx, args, span):
    a, b = args
    return Int(a.w, a.signed, binop("sub", a.e, b.e, a.w))


@model("core::num::<impl i64>::wrapping_add", "core::num::<impl u64>::wrapping_add", "core::num::<impl usize>::wrapping_add",
       "core::num::<impl isize>::wrapping_add", "core::num::<impl u32>::wrapping_add", "core::num::<impl i32>::wrapping_add")
def m_wrapping_add(m, st, ctx, args, span):
    a, b = args
    return Int(a.w, a.signed, binop("add", a.e, b.e, a.w))


_INT_TYS = ("u8", "u16", "u32", "u64", "u128", "usize", "i8", "i16", "i32", "i64", "i128", "isize")


@model(*["core::num::<impl %s>::wrapping_%s" % (t, d) for t in _INT_TYS for d in ("shr", "shl")])
def m_wrapping_shift(m, st, ctx, args, span):
    # the shift amount is taken modulo the width, which is what int_binop does for a constant amount
    a, b = args
    if not b.is_const():
        b = int_binop("BitAnd", b, int_const(a.w - 1, b.w, False))
    return int_binop("Shr" if ctx.name.endswith("shr") else "Shl", a, b)


@model(*["core::num::<impl %s>::next_multiple_of" % t for t in ("u8", "u16", "u32", "u64", "usize")])
def m_next_multiple_of(m, st, ctx, args, span):
    # x.next_multiple_of(p) = x + (p - x % p) % p  (panics on p == 0 / overflow, which the callers' address arithmetic does not reach)
    a, b = args
    if a.is_const() and b.is_const() and b.cval():
        return int_const(-(-a.cval() // b.cval()) * b.cval(), a.w, a.signed)
    w = a.w
    slack = binop("rem", binop("sub", b.e, binop("rem", a.e, b.e, w), w), b.e, w)
    return Int(w, a.signed, binop("add", a.e, slack, w))


@model(*["core::num::<impl %s>::div_ceil" % t for t in ("u8", "u16", "u32", "u64", "usize")])
def m_div_ceil(m, st, ctx, args, span):
    # x.div_ceil(p) = x.next_multiple_of(p) / p (unsigned; panics on p == 0): spelled over the next_multiple_of form so that
    # `x.div_ceil(p) * p` is recognised by the bounds prover as rounding x up to a multiple of p
    a, b = args
    if a.is_const() and b.is_const() and b.cval():
        return int_const(-(-a.cval() // b.cval()), a.w, a.signed)
    w = a.w
    slack = binop("rem", binop("sub", b.e, binop("rem", a.e, b.e, w), w), b.e, w)
    return Int(w, a.signed, binop("div", binop("add", a.e, slack, w), b.e, w))


@model("core::num::<impl u64>::abs_diff", "core::num::<impl usize>::abs_diff", "core::num::<impl u32>::abs_diff",
       "core::num::<impl i64>::abs_diff", "core::num::<impl isize>::abs_diff")
def m_abs_diff(m, st, ctx, args, span):
    a, b = args
    if a.is_const() and b.is_const():
        return int_const(abs((a.sval() if a.signed else a.cval()) - (b.sval() if b.signed else b.cval())), a.w)
    return Int(a.w, False, E("abs_diff_s" if a.signed else "abs_diff", (a.e, b.e), a.w))


@model("core::num::<impl isize>::unsigned_abs", "core::num::<impl i64>::unsigned_abs", "core::num::<impl i32>::unsigned_abs",
       "core::num::<impl i128>::unsigned_abs", "core::num::<impl isize>::abs", "core::num::<impl i64>::abs", "core::num::<impl i32>::abs",
       "core::num::<impl isize>::wrapping_abs", "core::num::<impl i64>::wrapping_abs")
def m_abs(m, st, ctx, args, span):
    a = args[0]
    if a.is_const():
        return int_const(abs(a.sval()), a.w)
    return Int(a.w, ctx.name.split("::")[-1] != "unsigned_abs", E("abs_s", (a.e,), a.w))


@model("core::num::<impl u64>::saturating_sub", "core::num::<impl usize>::saturating_sub", "core::num::<impl u32>::saturating_sub")
def m_saturating_sub(m, st, ctx, args, span):
    a, b = args
    if a.is_const() and b.is_const():
        return int_const(max(0, a.cval() - b.cval()), a.w)
    return Int(a.w, False, E("saturating_sub", (a.e, b.e), a.w))


@model("core::num::<impl u64>::saturating_add", "core::num::<impl usize>::saturating_add")
def m_saturating_add(m, st, ctx, args, span):
    a, b = args
    return Int(a.w, False, E("saturating_add", (a.e, b.e), a.w))


@model("core::bool::<impl bool>::then_some")
def m_then_some(m, st, ctx, args, span):
    c, v = args
    if isinstance(c, Int):
        if c.is_const():
            return some(v) if c.cval() else none()
        return Fork(c.e, [(1, some(v)), (0, none())])
    raise Unsupported("then_some on %r" % (c,))


def _from_bool(m, st, ctx, args, span):
    import re
    mt = re.search(r"From<bool> for (\w+)>::from", ctx.name)
    ii = int_info({"k": "uint" if mt.group(1)[0] == "u" else "int", "name": mt.group(1)}, m.ptr_bits) if mt else None
    if ii and isinstance(args[0], Int):
        return int_cast(args[0], ii[0], ii[1])
    raise Unsupported("From<bool> " + ctx.name)


for _t in ("u8", "u16", "u32", "u64", "usize", "i32", "i64", "isize"):
    MODELS["core::convert::num::<impl std::convert::From<bool> for %s>::from" % _t] = _from_bool
    MODELS["std::convert::num::<impl std::convert::From<bool> for %s>::from" % _t] = _from_bool


def _from_widen(m, st, ctx, args, span):
    import re
    mt = re.search(r"From<(\w+)> for (\w+)>::from", ctx.name)
    if mt and isinstance(args[0], Int):
        t = mt.group(2)
        ii = int_info({"k": "uint" if t[0] == "u" else "int", "name": t}, m.ptr_bits)
        if ii:
            return int_cast(args[0], ii[0], ii[1])
    raise Unsupported("From " + ctx.name)


for _a, _b in (("u8", "u32"), ("u8", "u64"), ("u8", "usize"), ("u16", "u32"), ("u32", "u64"), ("u16", "u64"), ("u8", "u16"), ("i32", "i64"), ("u32", "i64"), ("u32", "usize")):
    MODELS["core::convert::num::<impl std::convert::From<%s> for %s>::from" % (_a, _b)] = _from_widen
    MODELS["std::convert::num::<impl std::convert::From<%s> for %s>::from" % (_a, _b)] = _from_widen


@model("std::slice::<impl [V]>::concat", "std::slice::<impl [T]>::concat")
def m_concat(m, st, ctx, args, span):
    s = args[0]
    parts = slice_elems(m, s)
    if parts is None:
        raise Unsupported("concat of %r" % (s,))
    out = []
    for p_ in parts:
        el = slice_elems(m, p_) if not isinstance(p_, Arr) else p_.elems
        if el is None:
            raise Unsupported("concat part %r" % (p_,))
        out.extend(el)
    return VecV(elems=list(out), cap=usize(m, len(out)))


@model("std::option::Option::<T>::take")
def m_option_take(m, st, ctx, args, span):
    r = args[0]
    if isinstance(r, Ref):
        old = deref(r)
        store(r, none())
        return old
    raise Unsupported("Option::take on %r" % (r,))


@model("std::mem::replace")
def m_mem_replace(m, st, ctx, args, span):
    r, v = args
    if isinstance(r, Ref):
        old = deref(r)
        store(r, v)
        return old
    raise Unsupported("mem::replace on %r" % (r,))


@model("std::option::Option::<T>::unwrap_or_else", "std::result::Result::<T, E>::unwrap_or_else")
def m_unwrap_or_else(m, st, ctx, args, span):
    v, f = args
    if isinstance(v, Adt) and v.path in ("std::option::Option", "std::result::Result"):
        ok_variant = 1 if v.path == "std::option::Option" else 0
        if v.variant == ok_variant:
            return v.fields[0]
        if isinstance(f, ClosureV):
            cb = m.facts.body(f.path)
            by_ref = bool(cb) and cb["locals"][1]["ty"].get("k") == "ref"
            return Enter(f.path, [Ref(Cell(f), (), True) if by_ref else f] + ([v.fields[0]] if (v.fields and cb and cb["arg_count"] > 1) else []))
        raise Unsupported("unwrap_or_else fallback %r" % (f,))
    if isinstance(v, Opaque) and "Option" in ctx.name:
        cond = E("is_some", (v.e,), 1)
        payload = m.sym_value(E("some_payload", (v.e,)), ctx.dest_ty) if ctx.dest_ty else Opaque(E("some_payload", (v.e,)))
        if isinstance(f, ClosureV):
            # None: the fallback closure runs; we only support fallbacks that diverge (panic): evaluated by the caller through Fork+DIVERGE
            cv = m.facts.body(f.path)
            diverges = cv is not None and all(b_["term"]["k"] != "return" for b_ in cv["blocks"] if not b_["cleanup"]) if cv else False
            if diverges:
                m.event(st, "diverge-fallback", ctx.name, [v], None, span)
                return Fork(cond, [(1, payload), (0, DIVERGE)])
    raise Unsupported("unwrap_or_else on %r with %r" % (v, f))


@model("std::ops::RangeInclusive::<Idx>::new")
def m_range_incl_new(m, st, ctx, args, span):
    return Adt("std::ops::RangeInclusive", 0, "RangeInclusive", [args[0], args[1], int_const(0, 1)], ["start", "end", "exhausted"])


def _contains(m, lo, hi, item, inclusive):
    pre = "s" if item.signed else "u"
    c1 = cmpop(pre + "le", lo.e, item.e)
    c2 = cmpop(pre + ("le" if inclusive else "lt"), item.e, hi.e)
    if c1.is_const() and c2.is_const():
        return int_const(c1.val & c2.val, 1)
    if c1.is_const():
        return Int(1, False, c2 if c1.val else FALSE)
    if c2.is_const():
        return Int(1, False, c1 if c2.val else FALSE)
    return Int(1, False, E("and", (c1, c2), 1))


@model("std::ops::RangeInclusive::<Idx>::contains")
def m_range_incl_contains(m, st, ctx, args, span):
    r, item = deref(args[0]), deref(args[1])
    if isinstance(r, Adt) and isinstance(item, Int):
        return _contains(m, r.fields[0], r.fields[1], item, True)
    raise Unsupported("RangeInclusive::contains(%r, %r)" % (r, item))


@model("std::ops::Range::<Idx>::contains")
def m_range_contains(m, st, ctx, args, span):
    r, item = deref(args[0]), deref(args[1])
    if isinstance(r, Adt) and isinstance(item, Int):
        return _contains(m, r.fields[0], r.fields[1], item, False)
    raise Unsupported("Range::contains(%r, %r)" % (r, item))


def _try_from(m, st, ctx, args, span):
    import re
    mt = re.search(r"TryFrom<(\w+)> for (\w+)>::try_from", ctx.name)
    a = args[0]
    if not mt or not isinstance(a, Int):
        raise Unsupported("try_from " + ctx.name)
    tgt = mt.group(2)
    ii = int_info({"k": "int" if tgt[0] == "i" else "uint", "name": tgt}, m.ptr_bits)
    if ii is None:
        raise Unsupported("try_from target " + tgt)
    tw, ts = ii
    lo = -(1 << (tw - 1)) if ts else 0
    hi = (1 << (tw - 1)) - 1 if ts else (1 << tw) - 1
    okv = Adt("std::result::Result", 0, "Ok", [int_cast(a, tw, ts)], ["0"])
    errv = Adt("std::result::Result", 1, "Err", [Opaque(E("try_from_error", ()))], ["0"])
    if a.is_const():
        v = a.sval() if a.signed else a.cval()
        return okv if lo <= v <= hi else errv
    pre = "s" if a.signed else "u"
    conds = []
    if a.signed:
        amin = -(1 << (a.w - 1))
        if lo > amin:
            conds.append(cmpop("sge", a.e, const(lo, a.w)))
        if hi < (1 << (a.w - 1)) - 1:
            conds.append(cmpop("sle", a.e, const(hi, a.w)))
    else:
        if hi < (1 << a.w) - 1:
            conds.append(cmpop("ule", a.e, const(hi, a.w)))
    if not conds:
        return okv
    c = conds[0] if len(conds) == 1 else E("and", (conds[0], conds[1]), 1)
    return Fork(c, [(1, okv), (0, errv)])


for _src in ("isize", "i64", "i128", "usize", "u64", "i32", "u32"):
    for _dst in ("i32", "u32", "i16", "u16", "i8", "u8", "i64", "u64", "isize", "usize"):
        if _src != _dst:
            MODELS["std::convert::num::ptr_try_from_impls::<impl std::convert::TryFrom<%s> for %s>::try_from" % (_src, _dst)] = _try_from
            MODELS["std::convert::num::<impl std::convert::TryFrom<%s> for %s>::try_from" % (_src, _dst)] = _try_from


# ------------------------------------------------------------------------------------------------ pointers

def known_nonnull(e):
    """Addresses of functions are never null."""
    if e.op == "fnaddr":
        return True
    if e.op == "gamma":
        return known_nonnull(e.args[1]) and known_nonnull(e.args[2])
    return False


@model("std::ptr::NonNull::<T>::new")
def m_nonnull_new(m, st, ctx, args, span):
    p = args[0]
    if isinstance(p, FnVal):
        return some(Adt("std::ptr::NonNull", 0, "NonNull", [p], ["pointer"]))
    if isinstance(p, Int):
        if p.is_const():
            return none() if p.cval() == 0 else some(Adt("std::ptr::NonNull", 0, "NonNull", [p], ["pointer"]))
        if known_nonnull(p.e):
            return some(Adt("std::ptr::NonNull", 0, "NonNull", [p], ["pointer"]))
        cond = cmpop("ne", p.e, const(0, p.w))
        return Fork(cond, [(1, some(Adt("std::ptr::NonNull", 0, "NonNull", [p], ["pointer"]))), (0, none())])
    if isinstance(p, Opaque):
        cond = E("nonnull", (p.e,), 1)
        return Fork(cond, [(1, some(Adt("std::ptr::NonNull", 0, "NonNull", [p], ["pointer"]))), (0, none())])
    raise Unsupported("NonNull::new(%r)" % (p,))


@model("<std::option::Option<T> as std::ops::Try>::branch")
def m_option_branch(m, st, ctx, args, span):
    # `opt?`: Some(v) -> ControlFlow::Continue(v), None -> ControlFlow::Break(None).
    o = deref(args[0]) if isinstance(args[0], Ref) else args[0]
    cont = lambda v: Adt("std::ops::ControlFlow", 0, "Continue", [v], ["0"])
    brk = Adt("std::ops::ControlFlow", 1, "Break", [none()], ["0"])
    if isinstance(o, Adt) and o.path == "std::option::Option":
        return cont(o.fields[0]) if o.variant == 1 else brk
    if isinstance(o, Opaque):
        cond = E("is_some", (o.e,), 1)
        t = next((g["ty"] for g in ctx.gargs if g.get("ty")), None)
        pe = E("some_payload", (o.e,))
        return Fork(cond, [(1, cont(m.sym_value(pe, t) if t else Opaque(pe))), (0, brk)])
    raise Unsupported("Option::branch(%r)" % (o,))


@model("<std::option::Option<T> as std::ops::FromResidual<std::option::Option<std::convert::Infallible>>>::from_residual")
def m_option_from_residual(m, st, ctx, args, span):
    return none()


@model("std::ptr::NonNull::<T>::new_unchecked")
def m_nonnull_new_unchecked(m, st, ctx, args, span):
    return Adt("std::ptr::NonNull", 0, "NonNull", [args[0]], ["pointer"])


@model("std::ptr::NonNull::<T>::as_ptr")
def m_nonnull_as_ptr(m, st, ctx, args, span):
    v = args[0]
    if isinstance(v, Adt) and v.path == "std::ptr::NonNull":
        return v.fields[0]
    if isinstance(v, Opaque):
        return Int(m.ptr_bits, False, E("nn_ptr", (v.e,), m.ptr_bits))
    raise Unsupported("NonNull::as_ptr(%r)" % (v,))


@model("std::result::Result::<T, E>::is_ok", "std::result::Result::<T, E>::is_err", "std::option::Option::<T>::is_some",
       "std::option::Option::<T>::is_none")
def m_is_variant(m, st, ctx, args, span):
    v = deref(args[0]) if isinstance(args[0], Ref) else args[0]
    want = ctx.name.split("::")[-1]
    if isinstance(v, Adt) and v.path in ("std::option::Option", "std::result::Result"):
        good = v.variant == (1 if v.path == "std::option::Option" else 0)     # Some / Ok
        return int_const(int(good == (want in ("is_ok", "is_some"))), 1)
    if isinstance(v, Opaque):
        e = E("is_some" if "Option" in ctx.name else "is_ok", (v.e,), 1)
        return Int(1, False, e if want in ("is_ok", "is_some") else not_(e))
    raise Unsupported("%s(%r)" % (want, v))


@model("std::option::Option::<T>::expect", "std::option::Option::<T>::unwrap")
def m_option_expect(m, st, ctx, args, span):
    v = args[0]
    if isinstance(v, Adt) and v.path == "std::option::Option":
        if v.variant == 1:
            return v.fields[0]
        m.event(st, "diverge", ctx.name, args[1:], None, span)
        return DIVERGE
    if isinstance(v, Opaque):
        cond = E("is_some", (v.e,), 1)
        return Fork(cond, [(1, m.sym_value(E("some_payload", (v.e,)), ctx.dest_ty) if ctx.dest_ty else Opaque(E("some_payload", (v.e,)))), (0, DIVERGE)])
    raise Unsupported("Option::expect(%r)" % (v,))


@model("std::ptr::mut_ptr::<impl *mut T>::add", "std::ptr::const_ptr::<impl *const T>::add",
       "std::ptr::mut_ptr::<impl *mut T>::offset", "std::ptr::const_ptr::<impl *const T>::offset",
       "std::ptr::mut_ptr::<impl *mut T>::wrapping_add", "std::ptr::const_ptr::<impl *const T>::wrapping_add")
def m_ptr_add(m, st, ctx, args, span):
    p, n = args
    esz = 1
    for g in ctx.gargs:
        t = g.get("ty")
        if t:
            ii = int_info(t, m.ptr_bits)
            if ii:
                esz = max(1, ii[0] // 8)
            elif t["k"] == "tuple" and not t["elems"]:
                esz = 0
            else:
                raise Unsupported("ptr.add on pointer to " + t["s"])
    if isinstance(p, Int) and isinstance(n, Int):
        ne = cast(n.e, p.w, n.signed)
        if esz != 1:
            ne = binop("mul", ne, const(esz, p.w), p.w)
        return Int(p.w, False, binop("add", p.e, ne, p.w))
    raise Unsupported("ptr.add(%r, %r)" % (p, n))


@model("std::ptr::mut_ptr::<impl *mut T>::is_null", "std::ptr::const_ptr::<impl *const T>::is_null")
def m_ptr_is_null(m, st, ctx, args, span):
    p = args[0]
    if isinstance(p, Int):
        return int_cmp("Eq", p, int_const(0, p.w))
    if isinstance(p, (Ref, SliceRef, FnVal)):
        return int_const(0, 1)
    raise Unsupported("is_null(%r)" % (p,))


@model("std::ptr::mut_ptr::<impl *mut T>::offset_from", "std::ptr::const_ptr::<impl *const T>::offset_from")
def m_ptr_offset_from(m, st, ctx, args, span):
    a, b = args
    if isinstance(a, Int) and isinstance(b, Int):
        return Int(a.w, True, binop("sub", a.e, b.e, a.w))
    raise Unsupported("offset_from(%r, %r)" % (a, b))


@model("std::ptr::null_mut", "std::ptr::null")
def m_null(m, st, ctx, args, span):
    return int_const(0, m.ptr_bits)


@model("std::mem::zeroed")
def m_zeroed(m, st, ctx, args, span):
    ty = ctx.dest_ty
    if ty is not None:
        ii = int_info(ty, m.ptr_bits)
        if ii:
            return int_const(0, ii[0], ii[1])
    return Opaque(E("zeroed", ()), ty)


def describe_src(m, v):
    """(kind, payload) for the source of a raw copy: concrete byte list, symbolic slice, or raw address."""
    if isinstance(v, SliceRef):
        el = slice_elems(m, v)
        return "bytes", list(el)
    if isinstance(v, Ref):
        t = deref(v)
        if isinstance(t, Arr):
            return "bytes", list(t.elems)
        if isinstance(t, VecV):
            if t.elems is not None:
                return "bytes", list(t.elems)
            return "sym", t.content
    if isinstance(v, Int):
        return "addr", v
    return "other", v


def elem_size_of(m, ctx):
    """Size in bytes of T for copy_nonoverlapping::<T> (None if not a scalar we know)."""
    t = None
    for g in (ctx.gargs if ctx is not None else []) or []:
        if isinstance(g, dict) and g.get("ty"):
            t = g["ty"]
    if t is None:
        return None
    if t.get("k") == "param" and ctx is not None and ctx.fr is not None:
        t = ctx.fr.gmap.get(t.get("name"), t)          # T of the enclosing generic function, bound at its call site
        if not isinstance(t, dict):
            return None
    if t.get("k") == "tuple" and not t.get("elems"):
        return 0
    ii = int_info(t, m.ptr_bits)
    if ii:
        return max(1, ii[0] // 8)
    return None


@model("std::ptr::copy_nonoverlapping", "std::intrinsics::copy_nonoverlapping", "std::ptr::copy", "std::intrinsics::copy")
def m_copy_nonoverlapping(m, st, ctx, args, span):
    src, dst, cnt = args
    sk, sp = describe_src(m, src)
    name = ctx.name if ctx is not None else "std::ptr::copy_nonoverlapping"
    # the count is in units of T: everything downstream (ranges written, bytes decoded, flush coverage) is in bytes
    esz = elem_size_of(m, ctx)
    if esz is None:
        if ctx is not None and ctx.gargs:
            raise Unsupported("copy_nonoverlapping of a non-scalar element type")
        esz = 1
    if esz != 1 and isinstance(cnt, Int):
        cnt = Int(cnt.w, cnt.signed, binop("mul", cnt.e, const(esz, cnt.w), cnt.w)) if not cnt.is_const() else int_const(cnt.cval() * esz, cnt.w, cnt.signed)
        if sk == "bytes":
            if all(isinstance(x, Int) and x.w == 8 * esz for x in sp):
                sp = [b for x in sp for b in bytes_of(x)]
            else:
                sk, sp = "other", src
    if isinstance(dst, Ref):
        # copy into a tracked buffer (the byte reader): the buffer now holds memory read from `src`
        tgt = deref(dst)
        if isinstance(tgt, VecV) and isinstance(src, Int):
            m.event(st, "raw_read", name, [src, dst, cnt], None, span, extra={"src": src, "count": cnt})
            ln = tgt.length(m.ptr_bits)
            store(dst, VecV(content=E("mem", (src.e, cnt.e)), length=ln, cap=tgt.cap))
            return UNIT
        raise Unsupported("copy into tracked %r from %r" % (tgt, src))
    if isinstance(dst, Int):
        extra = {"dst": dst, "count": cnt, "src_kind": sk, "src": sp}
        if sk == "addr":
            extra["src_ptr"] = src
        if isinstance(src, SliceRef):
            extra["src_len"] = usize(m, src.n * esz)
        if isinstance(src, SymSlice):
            extra["src_kind"] = "sym"
            extra["src"] = src.content
            extra["src_len"] = src.len
        m.event(st, "raw_write", name, [src, dst, cnt], None, span, extra=extra)
        return UNIT
    raise Unsupported("copy_nonoverlapping(%r, %r, %r)" % (src, dst, cnt))


@model("std::ptr::write", "std::ptr::write_volatile", "std::ptr::write_unaligned", "std::ptr::write_bytes",
       "std::ptr::mut_ptr::<impl *mut T>::write", "std::ptr::mut_ptr::<impl *mut T>::write_bytes",
       "std::ptr::mut_ptr::<impl *mut T>::write_volatile", "std::ptr::mut_ptr::<impl *mut T>::write_unaligned",
       "std::ptr::mut_ptr::<impl *mut T>::copy_from", "std::ptr::mut_ptr::<impl *mut T>::copy_from_nonoverlapping",
       "std::ptr::const_ptr::<impl *const T>::copy_to", "std::ptr::const_ptr::<impl *const T>::copy_to_nonoverlapping",
       "std::ptr::mut_ptr::<impl *mut T>::copy_to", "std::ptr::mut_ptr::<impl *mut T>::copy_to_nonoverlapping",
       "std::ptr::swap", "std::ptr::swap_nonoverlapping", "std::ptr::replace", "std::ptr::mut_ptr::<impl *mut T>::swap",
       "std::ptr::mut_ptr::<impl *mut T>::replace", "std::ptr::slice_from_raw_parts_mut")
def m_other_raw_write(m, st, ctx, args, span):
    ret = m.fresh(st, ctx.name, ctx.dest_ty)
    m.event(st, "raw_write_other", ctx.name, args, ret, span)
    return ret


@model("std::slice::from_raw_parts")
def m_from_raw_parts(m, st, ctx, args, span):
    # a shared slice over raw memory: reading it (to_vec, copy_from_slice as a source) reads those bytes - recorded like the byte reader's copy
    ptr, ln = args
    if isinstance(ptr, Int) and isinstance(ln, Int) and elem_size_of(m, ctx) == 1:
        m.event(st, "raw_read", ctx.name, [ptr, None, ln], None, span, extra={"src": ptr, "count": ln})
        return SymSlice(E("mem", (ptr.e, ln.e)), ptr, ln)
    raise Unsupported("slice::from_raw_parts(%r, %r)" % (ptr, ln))


@model("std::slice::from_raw_parts_mut")
def m_from_raw_parts_mut(m, st, ctx, args, span):
    ptr, ln = args
    if isinstance(ptr, Int) and isinstance(ln, Int) and elem_size_of(m, ctx) == 1:
        m.event(st, "raw_slice", ctx.name, args, None, span, extra={"ptr": ptr, "len": ln})
        return RawSlice(ptr, ln)
    return m_other_raw_write(m, st, ctx, args, span)


# ------------------------------------------------------------------------------------------------ strings / fmt

@model("core::str::<impl str>::trim", "core::str::<impl str>::trim_end", "core::str::<impl str>::trim_start")
def m_str_trim(m, st, ctx, args, span):
    s = args[0]
    return Opaque(E(ctx.name.split("::")[-1], (s.e,)), ctx.dest_ty)


@model("core::str::<impl str>::ends_with", "core::str::<impl str>::starts_with", "core::str::<impl str>::contains")
def m_str_affix(m, st, ctx, args, span):
    s, pat = args
    pe = pat.e if isinstance(pat, (Opaque, Int)) else E("val", (repr(pat),))
    return Int(1, False, E("str_" + ctx.name.split("::")[-1], (s.e, pe), 1))


@model("std::cmp::impls::<impl std::cmp::PartialEq<&B> for &A>::ne", "std::cmp::impls::<impl std::cmp::PartialEq<&B> for &A>::eq",
       "core::str::traits::<impl std::cmp::PartialEq for str>::eq", "core::str::traits::<impl std::cmp::PartialEq for str>::ne")
def m_ref_cmp(m, st, ctx, args, span):
    a, b = deref(args[0]), deref(args[1])
    a, b = deref(a), deref(b)
    if isinstance(a, Opaque) and isinstance(b, Opaque):
        op = "str_ne" if ctx.name.endswith("::ne") else "str_eq"
        return Int(1, False, E(op, (a.e, b.e), 1))
    if isinstance(a, Int) and isinstance(b, Int):
        return int_cmp("Ne" if ctx.name.endswith("::ne") else "Eq", a, b)
    raise Unsupported("PartialEq on %r, %r" % (a, b))


@model("std::cmp::PartialEq::ne", "std::cmp::PartialEq::eq", "<std::option::Option<T> as std::cmp::PartialEq>::eq",
       "<std::option::Option<T> as std::cmp::PartialEq>::ne")
def m_partial_eq(m, st, ctx, args, span):
    a, b = deref(args[0]), deref(args[1])
    ne = ctx.name.endswith("::ne")
    if isinstance(a, Adt) and isinstance(b, Adt) and a.path == b.path == "std::option::Option":
        if a.variant != b.variant:
            return int_const(1 if ne else 0, 1)
        if a.variant == 0:
            return int_const(0 if ne else 1, 1)
        x, y = deref(a.fields[0]), deref(b.fields[0])
        if isinstance(x, Opaque) and isinstance(y, Opaque):
            return Int(1, False, E("str_ne" if ne else "str_eq", (x.e, y.e), 1))
        if isinstance(x, Int) and isinstance(y, Int):
            return int_cmp("Ne" if ne else "Eq", x, y)
    if isinstance(a, Adt) and isinstance(b, Adt) and a.path == b.path and a.variant == b.variant and len(a.fields) == len(b.fields) >= 1:
        # a crate type with #[derive(PartialEq)] (the impl's span comes from the derive expansion): field-wise equality
        f = m.facts.fns.get("<%s as std::cmp::PartialEq>::eq" % a.path)
        if f is not None and (f.get("span") or {}).get("exp") and len(m.facts.adts.get(a.path, {}).get("variants", [])) == 1:
            acc = None
            for x, y in zip(a.fields, b.fields):
                x, y = deref(deref(x)), deref(deref(y))
                if isinstance(x, Opaque) and isinstance(y, Opaque):
                    e = Int(1, False, E("str_eq", (x.e, y.e), 1))
                elif isinstance(x, Int) and isinstance(y, Int):
                    e = int_cmp("Eq", x, y)
                else:
                    raise Unsupported("derived PartialEq on field %r, %r" % (x, y))
                acc = e if acc is None else int_binop("BitAnd", acc, e)
            if ne:
                if acc.e.op == "str_eq":
                    return Int(1, False, E("str_ne", acc.e.args, 1))
                return int_binop("BitXor", acc, int_const(1, 1))
            return acc
    raise Unsupported("PartialEq on %r, %r" % (a, b))


@model("std::any::type_name_of_val", "std::any::type_name")
def m_type_name(m, st, ctx, args, span):
    t = None
    for g in ctx.gargs:
        if "ty" in g:
            t = g["ty"]
    import json as _json
    rendered = None
    tn = ctx.term["callee"].get("type_names") if ctx.term.get("callee") else None
    if tn:
        rendered = tn[-1]
    return Opaque(E("type_name", (t["s"] if t else "?", t["k"] if t else "?", _json.dumps(t, sort_keys=True) if t else "null", rendered)), ctx.dest_ty)


@model("core::fmt::rt::Argument::<'_>::new_display", "core::fmt::rt::Argument::<'_>::new_debug",
       "core::fmt::rt::Argument::<'_>::new_lower_hex", "core::fmt::rt::Argument::<'_>::new_upper_hex")
def m_fmt_arg(m, st, ctx, args, span):
    v = deref(args[0])
    v = deref(v)
    e = v.e if isinstance(v, (Int, Opaque)) else E("val", (repr(v),))
    return Opaque(E("fmt_arg", (e,)), ctx.dest_ty)


@model("std::fmt::Arguments::<'a>::new", "std::fmt::Arguments::<'a>::from_str", "std::fmt::Arguments::<'a>::new_const",
       "std::fmt::Arguments::<'a>::new_v1")
def m_fmt_arguments(m, st, ctx, args, span):
    parts = []
    for a in args:
        v = deref(a)
        if isinstance(v, Arr):
            for x in v.elems:
                parts.append(x.e if isinstance(x, (Int, Opaque)) else E("val", (repr(x),)))
        elif isinstance(v, SliceRef):
            for x in slice_elems(m, v) or []:
                parts.append(x.e if isinstance(x, (Int, Opaque)) else E("val", (repr(x),)))
        elif isinstance(v, (Opaque, Int)):
            parts.append(v.e)
    return Opaque(E("fmt", tuple(parts)), ctx.dest_ty)


# ------------------------------------------------------------------------------------------------ shims (synthetic MIR)

def _pl(l, *proj):
    return {"l": l, "p": list(proj)}


def _copy(l, *proj):
    return {"k": "copy", "place": _pl(l, *proj)}


def _move(l, *proj):
    return {"k": "move", "place": _pl(l, *proj)}


def _callee(path):
    return {"k": "def", "path": path, "args": [], "local": False, "foreign": False, "abi": "Rust", "diverges": False,
            "intrinsic": False, "resolved": None}


_ANY = {"s": "?", "k": "other"}


def _mk_fold_shim():
    # fn fold(iter, init, f) { let mut acc = init; loop { match next(&mut iter) { None => return acc, Some(x) => acc = f(acc, x) } } }
    # locals: 0 ret, 1 iter, 2 init, 3 f, 4 nxt, 5 &mut iter, 6 discr, 7 &mut f, 8 args tuple, 9 item
    blocks = [
        {"cleanup": False, "stmts": [{"k": "assign", "place": _pl(0), "rv": {"k": "use", "op": _move(2)}, "span": None}],
         "term": {"k": "goto", "target": 1}},
        {"cleanup": False, "stmts": [{"k": "assign", "place": _pl(5), "rv": {"k": "ref", "mut": True, "place": _pl(1)}, "span": None}],
         "term": {"k": "call", "callee": _callee("__shim::next"), "args": [_move(5)], "dest": _pl(4), "target": 2, "unwind": "continue", "span": None}},
        {"cleanup": False, "stmts": [{"k": "assign", "place": _pl(6), "rv": {"k": "discr", "place": _pl(4)}, "span": None}],
         "term": {"k": "switch", "discr": _move(6), "discr_ty": _ANY, "arms": [["0", 4]], "otherwise": 3}},
        {"cleanup": False, "stmts": [
            {"k": "assign", "place": _pl(9), "rv": {"k": "use", "op": _move(4, {"k": "downcast", "variant": 1, "name": "Some"}, {"k": "field", "i": 0, "name": "0", "ty": _ANY})}, "span": None},
            {"k": "assign", "place": _pl(8), "rv": {"k": "aggregate", "kind": {"k": "tuple"}, "ops": [_move(0), _move(9)]}, "span": None},
            {"k": "assign", "place": _pl(7), "rv": {"k": "ref", "mut": True, "place": _pl(3)}, "span": None}],
         "term": {"k": "call", "callee": _callee("std::ops::FnMut::call_mut"), "args": [_move(7), _move(8)], "dest": _pl(0), "target": 1, "unwind": "continue", "span": None}},
        {"cleanup": False, "stmts": [], "term": {"k": "return"}},
    ]
    return {"path": "__shim::fold", "promoted": None, "def_kind": "Fn", "span": {"file": "<shim>", "line": 0}, "arg_count": 3,
            "locals": [{"ty": _ANY} for _ in range(10)], "debug": [], "blocks": blocks}


def _mk_from_fn_shim():
    # fn from_fn<T, N, F>(f) -> [T; N] { let mut arr = []; let mut i = 0; while i < N { arr.push(f(i)); i += 1 } arr }
    # locals: 0 ret(arr) 1 f 2 i 3 n 4 cond 5 &mut f 6 args 7 v 8 &mut arr 9 unit
    U = {"s": "usize", "k": "uint", "name": "usize"}
    def cst(v):
        return {"k": "const", "ty": U, "val": {"k": "int", "bits": str(v), "size": 8}, "s": str(v)}
    blocks = [
        {"cleanup": False, "stmts": [{"k": "assign", "place": _pl(2), "rv": {"k": "use", "op": cst(0)}, "span": None}],
         "term": {"k": "call", "callee": _callee("__shim::arr_new"), "args": [], "dest": _pl(0), "target": 1, "unwind": "continue", "span": None}},
        {"cleanup": False, "stmts": [],
         "term": {"k": "call", "callee": _callee("__shim::generic_const"), "args": [cst(0)], "dest": _pl(3), "target": 2, "unwind": "continue", "span": None}},
        {"cleanup": False, "stmts": [{"k": "assign", "place": _pl(4), "rv": {"k": "binop", "op": "Lt", "a": _copy(2), "b": _copy(3)}, "span": None}],
         "term": {"k": "switch", "discr": _move(4), "discr_ty": _ANY, "arms": [["0", 5]], "otherwise": 3}},
        {"cleanup": False, "stmts": [
            {"k": "assign", "place": _pl(6), "rv": {"k": "aggregate", "kind": {"k": "tuple"}, "ops": [_copy(2)]}, "span": None},
            {"k": "assign", "place": _pl(5), "rv": {"k": "ref", "mut": True, "place": _pl(1)}, "span": None}],
         "term": {"k": "call", "callee": _callee("std::ops::FnMut::call_mut"), "args": [_move(5), _move(6)], "dest": _pl(7), "target": 4, "unwind": "continue", "span": None}},
        {"cleanup": False, "stmts": [
            {"k": "assign", "place": _pl(8), "rv": {"k": "ref", "mut": True, "place": _pl(0)}, "span": None},
            {"k": "assign", "place": _pl(2), "rv": {"k": "binop", "op": "Add", "a": _copy(2), "b": cst(1)}, "span": None}],
         "term": {"k": "call", "callee": _callee("__shim::arr_push"), "args": [_move(8), _move(7)], "dest": _pl(9), "target": 2, "unwind": "continue", "span": None}},
        {"cleanup": False, "stmts": [], "term": {"k": "return"}},
    ]
    locs = [{"ty": _ANY} for _ in range(10)]
    locs[2] = {"ty": U}
    locs[3] = {"ty": U}
    locs[4] = {"ty": {"s": "bool", "k": "bool"}}
    return {"path": "__shim::from_fn", "promoted": None, "def_kind": "Fn", "span": {"file": "<shim>", "line": 0}, "arg_count": 1,
            "locals": locs, "debug": [], "blocks": blocks}


def _mk_option_map_shim():
    # fn map(opt, f) -> Option<U> { match opt { None => None, Some(x) => Some(f(x)) } }
    # locals: 0 ret, 1 opt, 2 f, 3 discr, 4 x, 5 &mut f, 6 args, 7 r
    OPT = {"k": "adt", "path": "std::option::Option"}
    def agg(variant, name, ops):
        return {"k": "aggregate", "kind": {"k": "adt", "path": "std::option::Option", "variant": variant, "variant_name": name,
                                           "fields": ["0"] if ops else [], "args": []}, "ops": ops}
    blocks = [
        {"cleanup": False, "stmts": [{"k": "assign", "place": _pl(3), "rv": {"k": "discr", "place": _pl(1)}, "span": None}],
         "term": {"k": "switch", "discr": _move(3), "discr_ty": _ANY, "arms": [["0", 3]], "otherwise": 1}},
        {"cleanup": False, "stmts": [
            {"k": "assign", "place": _pl(4), "rv": {"k": "use", "op": _move(1, {"k": "downcast", "variant": 1, "name": "Some"}, {"k": "field", "i": 0, "name": "0", "ty": _ANY})}, "span": None},
            {"k": "assign", "place": _pl(6), "rv": {"k": "aggregate", "kind": {"k": "tuple"}, "ops": [_move(4)]}, "span": None},
            {"k": "assign", "place": _pl(5), "rv": {"k": "ref", "mut": True, "place": _pl(2)}, "span": None}],
         "term": {"k": "call", "callee": _callee("std::ops::FnMut::call_mut"), "args": [_move(5), _move(6)], "dest": _pl(7), "target": 2, "unwind": "continue", "span": None}},
        {"cleanup": False, "stmts": [{"k": "assign", "place": _pl(0), "rv": agg(1, "Some", [_move(7)]), "span": None}], "term": {"k": "return"}},
        {"cleanup": False, "stmts": [{"k": "assign", "place": _pl(0), "rv": agg(0, "None", []), "span": None}], "term": {"k": "return"}},
    ]
    return {"path": "__shim::option_map", "promoted": None, "def_kind": "Fn", "span": {"file": "<shim>", "line": 0}, "arg_count": 2,
            "locals": [{"ty": _ANY} for _ in range(8)], "debug": [], "blocks": blocks}


def _mk_option_pred_shim(name, on_none):
    # fn is_some_and(opt, f) -> bool { match opt { None => false, Some(x) => f(x) } }      (is_none_or: None => true)
    # locals: 0 ret, 1 opt, 2 f, 3 discr, 4 x, 5 &mut f, 6 args
    B = {"s": "bool", "k": "bool"}
    cst = {"k": "const", "ty": B, "val": {"k": "int", "bits": "1" if on_none else "0", "size": 1}, "s": "true" if on_none else "false"}
    blocks = [
        {"cleanup": False, "stmts": [{"k": "assign", "place": _pl(3), "rv": {"k": "discr", "place": _pl(1)}, "span": None}],
         "term": {"k": "switch", "discr": _move(3), "discr_ty": _ANY, "arms": [["0", 3]], "otherwise": 1}},
        {"cleanup": False, "stmts": [
            {"k": "assign", "place": _pl(4), "rv": {"k": "use", "op": _move(1, {"k": "downcast", "variant": 1, "name": "Some"}, {"k": "field", "i": 0, "name": "0", "ty": _ANY})}, "span": None},
            {"k": "assign", "place": _pl(6), "rv": {"k": "aggregate", "kind": {"k": "tuple"}, "ops": [_move(4)]}, "span": None},
            {"k": "assign", "place": _pl(5), "rv": {"k": "ref", "mut": True, "place": _pl(2)}, "span": None}],
         "term": {"k": "call", "callee": _callee("std::ops::FnMut::call_mut"), "args": [_move(5), _move(6)], "dest": _pl(0), "target": 2, "unwind": "continue", "span": None}},
        {"cleanup": False, "stmts": [], "term": {"k": "return"}},
        {"cleanup": False, "stmts": [{"k": "assign", "place": _pl(0), "rv": {"k": "use", "op": cst}, "span": None}], "term": {"k": "return"}},
    ]
    return {"path": name, "promoted": None, "def_kind": "Fn", "span": {"file": "<shim>", "line": 0}, "arg_count": 2,
            "locals": [{"ty": _ANY} for _ in range(7)], "debug": [], "blocks": blocks}


SHIMS["std::option::Option::<T>::is_some_and"] = _mk_option_pred_shim("__shim::is_some_and", False)
SHIMS["std::option::Option::<T>::is_none_or"] = _mk_option_pred_shim("__shim::is_none_or", True)
SHIMS["__shim::option_map"] = _mk_option_map_shim()
SHIMS["std::option::Option::<T>::map"] = SHIMS["__shim::option_map"]
SHIMS["__shim::from_fn"] = _mk_from_fn_shim()
SHIMS["std::array::from_fn"] = SHIMS["__shim::from_fn"]
SHIMS["__shim::fold"] = _mk_fold_shim()
for _n in ("<std::iter::Enumerate<I> as std::iter::Iterator>::fold", "std::iter::Iterator::fold", "<std::iter::Rev<I> as std::iter::Iterator>::fold",
           "<std::slice::Iter<'a, T> as std::iter::Iterator>::fold"):
    SHIMS[_n] = SHIMS["__shim::fold"]


# ------------------------------------------------------------------------------------------------ lazy iterator adapters (map / flat_map / collect)
# Adapters are plain Adt values (so that synthetic MIR can project their fields); `next` on them enters a shim that calls the
# closure through FnMut::call_mut like the real adapter does.

def _adapter(kind, fields, names):
    return Adt("__iter::" + kind, 0, kind, fields, names)


@model("std::iter::Iterator::map")
def m_iter_map(m, st, ctx, args, span):
    return _adapter("Map", [args[0], args[1]], ["iter", "f"])


@model("std::iter::Iterator::flat_map")
def m_iter_flat_map(m, st, ctx, args, span):
    return _adapter("FlatMap", [args[0], args[1], none()], ["iter", "f", "cur"])


def _next_dispatch(m, st, ctx, args, span):
    it = deref(args[0])
    if isinstance(it, Adt) and it.path == "__iter::Map":
        return Enter("__shim::map_next", [args[0]])
    if isinstance(it, Adt) and it.path == "__iter::FlatMap":
        return Enter("__shim::flatmap_next", [args[0]])
    if isinstance(it, Adt) and it.path == "__iter::Zip":
        return Enter("__shim::zip_next", [args[0]])
    if isinstance(it, Adt) and it.path == "__iter::Copied":
        return Enter("__shim::copied_next", [args[0]])
    return iter_next(m, args[0])


for _n in ("__shim::next", "<std::iter::Map<I, F> as std::iter::Iterator>::next", "<std::iter::FlatMap<I, U, F> as std::iter::Iterator>::next",
           "<std::iter::Zip<A, B> as std::iter::Iterator>::next", "<std::iter::Copied<I> as std::iter::Iterator>::next",
           "<std::iter::Cloned<I> as std::iter::Iterator>::next"):
    MODELS[_n] = _next_dispatch


@model("__shim::into_iter")
def m_shim_into_iter(m, st, ctx, args, span):
    return m_into_iter(m, st, ctx, args, span)


@model("__shim::vec_new")
def m_shim_vec_new(m, st, ctx, args, span):
    return VecV(elems=[])


@model("std::iter::Iterator::collect")
def m_collect(m, st, ctx, args, span):
    it = args[0]
    ty = ctx.dest_ty or {}
    if ty.get("k") != "adt" or ty.get("path") != "std::vec::Vec":
        raise Unsupported("collect into %s" % ty.get("s"))
    if isinstance(it, (IterV,)) or (isinstance(it, Adt) and it.path in ("__iter::Map", "__iter::FlatMap", "std::ops::Range")):
        return Enter("__shim::collect_vec", [it])
    raise Unsupported("collect of %r" % (it,))


def _some_field(l):
    return _move(l, {"k": "downcast", "variant": 1, "name": "Some"}, {"k": "field", "i": 0, "name": "0", "ty": _ANY})


def _opt(variant, ops):
    return {"k": "aggregate", "kind": {"k": "adt", "path": "std::option::Option", "variant": variant, "variant_name": "Some" if variant else "None",
                                       "fields": ["0"] if ops else [], "args": []}, "ops": ops}


def _fld(i, name):
    return {"k": "field", "i": i, "name": name, "ty": _ANY}


_DEREF = {"k": "deref"}


def _call(path, args, dest, target):
    return {"k": "call", "callee": _callee(path), "args": args, "dest": _pl(dest), "target": target, "unwind": "continue", "span": None}


def _asg(place, rv):
    return {"k": "assign", "place": place, "rv": rv, "span": None}


def _blk(stmts, term):
    return {"cleanup": False, "stmts": stmts, "term": term}


def _body(path, nargs, nlocals, blocks):
    return {"path": path, "promoted": None, "def_kind": "Fn", "span": {"file": "<shim>", "line": 0}, "arg_count": nargs,
            "locals": [{"ty": _ANY} for _ in range(nlocals)], "debug": [], "blocks": blocks}


def _mk_map_next_shim():
    # fn next(self: &mut Map) -> Option<B> { match next(&mut self.iter) { None => None, Some(x) => Some((self.f)(x)) } }
    # locals: 0 ret, 1 self, 2 &mut iter, 3 nxt, 4 discr, 5 x, 6 args, 7 &mut f, 8 y
    blocks = [
        _blk([_asg(_pl(2), {"k": "ref", "mut": True, "place": _pl(1, _DEREF, _fld(0, "iter"))})], _call("__shim::next", [_move(2)], 3, 1)),
        _blk([_asg(_pl(4), {"k": "discr", "place": _pl(3)})], {"k": "switch", "discr": _move(4), "discr_ty": _ANY, "arms": [["0", 4]], "otherwise": 2}),
        _blk([_asg(_pl(5), {"k": "use", "op": _some_field(3)}),
              _asg(_pl(6), {"k": "aggregate", "kind": {"k": "tuple"}, "ops": [_move(5)]}),
              _asg(_pl(7), {"k": "ref", "mut": True, "place": _pl(1, _DEREF, _fld(1, "f"))})],
             _call("std::ops::FnMut::call_mut", [_move(7), _move(6)], 8, 3)),
        _blk([_asg(_pl(0), _opt(1, [_move(8)]))], {"k": "return"}),
        _blk([_asg(_pl(0), _opt(0, []))], {"k": "return"}),
    ]
    return _body("__shim::map_next", 1, 9, blocks)


def _mk_flatmap_next_shim():
    # locals: 0 ret, 1 self, 2 discr cur, 3 &mut cur iter, 4 n, 5 discr n, 6 &mut iter, 7 e, 8 discr e, 9 x, 10 args, 11 &mut f, 12 y, 13 it
    cur = lambda *more: _pl(1, _DEREF, _fld(2, "cur"), *more)
    blocks = [
        # bb0
        _blk([_asg(_pl(2), {"k": "discr", "place": cur()})], {"k": "switch", "discr": _move(2), "discr_ty": _ANY, "arms": [["0", 4]], "otherwise": 1}),
        # bb1: current sub-iterator
        _blk([_asg(_pl(3), {"k": "ref", "mut": True, "place": cur({"k": "downcast", "variant": 1, "name": "Some"}, _fld(0, "0"))})],
             _call("__shim::next", [_move(3)], 4, 2)),
        # bb2
        _blk([_asg(_pl(5), {"k": "discr", "place": _pl(4)})], {"k": "switch", "discr": _move(5), "discr_ty": _ANY, "arms": [["0", 3]], "otherwise": 8}),
        # bb3: exhausted -> clear and fetch
        _blk([_asg(cur(), _opt(0, []))], {"k": "goto", "target": 4}),
        # bb4: fetch next outer element
        _blk([_asg(_pl(6), {"k": "ref", "mut": True, "place": _pl(1, _DEREF, _fld(0, "iter"))})], _call("__shim::next", [_move(6)], 7, 5)),
        # bb5
        _blk([_asg(_pl(8), {"k": "discr", "place": _pl(7)})], {"k": "switch", "discr": _move(8), "discr_ty": _ANY, "arms": [["0", 9]], "otherwise": 6}),
        # bb6: call the closure
        _blk([_asg(_pl(9), {"k": "use", "op": _some_field(7)}),
              _asg(_pl(10), {"k": "aggregate", "kind": {"k": "tuple"}, "ops": [_move(9)]}),
              _asg(_pl(11), {"k": "ref", "mut": True, "place": _pl(1, _DEREF, _fld(1, "f"))})],
             _call("std::ops::FnMut::call_mut", [_move(11), _move(10)], 12, 7)),
        # bb7: into_iter and store
        _blk([], _call("__shim::into_iter", [_move(12)], 13, 10)),
        # bb8: yield
        _blk([_asg(_pl(0), {"k": "use", "op": _move(4)})], {"k": "return"}),
        # bb9: outer exhausted
        _blk([_asg(_pl(0), _opt(0, []))], {"k": "return"}),
        # bb10
        _blk([_asg(cur(), _opt(1, [_move(13)]))], {"k": "goto", "target": 0}),
    ]
    return _body("__shim::flatmap_next", 1, 14, blocks)


def _mk_collect_vec_shim():
    # fn collect(it) -> Vec<T> { let mut v = vec_new(); loop { match next(&mut it) { None => return v, Some(x) => v.push(x) } } }
    # locals: 0 ret(v), 1 it, 2 &mut it, 3 n, 4 discr, 5 x, 6 &mut v, 7 unit
    blocks = [
        _blk([], _call("__shim::vec_new", [], 0, 1)),
        _blk([_asg(_pl(2), {"k": "ref", "mut": True, "place": _pl(1)})], _call("__shim::next", [_move(2)], 3, 2)),
        _blk([_asg(_pl(4), {"k": "discr", "place": _pl(3)})], {"k": "switch", "discr": _move(4), "discr_ty": _ANY, "arms": [["0", 4]], "otherwise": 3}),
        _blk([_asg(_pl(5), {"k": "use", "op": _some_field(3)}), _asg(_pl(6), {"k": "ref", "mut": True, "place": _pl(0)})],
             _call("std::vec::Vec::<T, A>::push", [_move(6), _move(5)], 7, 1)),
        _blk([], {"k": "return"}),
    ]
    return _body("__shim::collect_vec", 1, 8, blocks)


def _mk_collect_arr_shim():
    # like collect_vec, into a fixed array: used for [T; N]::map(f) = collect(into_iter().map(f))
    b = _mk_collect_vec_shim()
    import copy as _copy_
    b = _copy_.deepcopy(b)
    b["path"] = "__shim::collect_arr"
    b["blocks"][0]["term"]["callee"] = _callee("__shim::arr_new")
    b["blocks"][3]["term"]["callee"] = _callee("__shim::arr_push")
    return b


@model("std::array::<impl [T; N]>::map")
def m_array_map(m, st, ctx, args, span):
    arr, f = args
    if isinstance(arr, Arr):
        return Enter("__shim::collect_arr", [_adapter("Map", [m_into_iter(m, st, ctx, [arr], span), f], ["iter", "f"])])
    raise Unsupported("array::map of %r" % (arr,))


def _mk_zip_next_shim():
    # fn next(self: &mut Zip) -> Option<(A, B)> { let x = next(&mut self.a)?; let y = next(&mut self.b)?; Some((x, y)) }
    # locals: 0 ret, 1 self, 2 &mut a, 3 na, 4 discr, 5 &mut b, 6 nb, 7 discr, 8 x, 9 y, 10 pair
    blocks = [
        _blk([_asg(_pl(2), {"k": "ref", "mut": True, "place": _pl(1, _DEREF, _fld(0, "a"))})], _call("__shim::next", [_move(2)], 3, 1)),
        _blk([_asg(_pl(4), {"k": "discr", "place": _pl(3)})], {"k": "switch", "discr": _move(4), "discr_ty": _ANY, "arms": [["0", 5]], "otherwise": 2}),
        _blk([_asg(_pl(5), {"k": "ref", "mut": True, "place": _pl(1, _DEREF, _fld(1, "b"))})], _call("__shim::next", [_move(5)], 6, 3)),
        _blk([_asg(_pl(7), {"k": "discr", "place": _pl(6)})], {"k": "switch", "discr": _move(7), "discr_ty": _ANY, "arms": [["0", 5]], "otherwise": 4}),
        _blk([_asg(_pl(8), {"k": "use", "op": _some_field(3)}), _asg(_pl(9), {"k": "use", "op": _some_field(6)}),
              _asg(_pl(10), {"k": "aggregate", "kind": {"k": "tuple"}, "ops": [_move(8), _move(9)]}),
              _asg(_pl(0), _opt(1, [_move(10)]))], {"k": "return"}),
        _blk([_asg(_pl(0), _opt(0, []))], {"k": "return"}),
    ]
    return _body("__shim::zip_next", 1, 11, blocks)


def _mk_copied_next_shim():
    # fn next(self: &mut Copied) -> Option<T> { match next(&mut self.iter) { None => None, Some(r) => Some(*r) } }
    # locals: 0 ret, 1 self, 2 &mut iter, 3 n, 4 discr, 5 r, 6 v
    blocks = [
        _blk([_asg(_pl(2), {"k": "ref", "mut": True, "place": _pl(1, _DEREF, _fld(0, "iter"))})], _call("__shim::next", [_move(2)], 3, 1)),
        _blk([_asg(_pl(4), {"k": "discr", "place": _pl(3)})], {"k": "switch", "discr": _move(4), "discr_ty": _ANY, "arms": [["0", 3]], "otherwise": 2}),
        _blk([_asg(_pl(5), {"k": "use", "op": _some_field(3)}),
              _asg(_pl(6), {"k": "use", "op": {"k": "copy", "place": _pl(5, _DEREF)}}),
              _asg(_pl(0), _opt(1, [_move(6)]))], {"k": "return"}),
        _blk([_asg(_pl(0), _opt(0, []))], {"k": "return"}),
    ]
    return _body("__shim::copied_next", 1, 7, blocks)


SHIMS["__shim::copied_next"] = _mk_copied_next_shim()
SHIMS["__shim::zip_next"] = _mk_zip_next_shim()
SHIMS["__shim::collect_arr"] = _mk_collect_arr_shim()
SHIMS["__shim::map_next"] = _mk_map_next_shim()
SHIMS["__shim::flatmap_next"] = _mk_flatmap_next_shim()
SHIMS["__shim::collect_vec"] = _mk_collect_vec_shim()


@model("std::iter::once")
def m_iter_once(m, st, ctx, args, span):
    return IterV("once", args[0], False)


@model("<std::vec::Vec<T, A> as std::iter::Extend<T>>::extend", "std::iter::Extend::extend")
def m_vec_extend(m, st, ctx, args, span):
    r, it = args
    vec = deref(r)
    if isinstance(vec, (VecV, Opaque)) and (isinstance(it, IterV) or (isinstance(it, Adt) and it.path.startswith("__iter::"))):
        return Enter("__shim::extend_vec", [r, it])
    raise Unsupported("extend(%r, %r)" % (vec, it))


def _mk_extend_vec_shim():
    # fn extend(v: &mut Vec<T>, it) { loop { match next(&mut it) { None => return, Some(x) => v.push(x) } } }
    # locals: 0 ret, 1 v, 2 it, 3 &mut it, 4 n, 5 discr, 6 x, 7 reborrow v, 8 unit
    blocks = [
        _blk([_asg(_pl(3), {"k": "ref", "mut": True, "place": _pl(2)})], _call("__shim::next", [_move(3)], 4, 1)),
        _blk([_asg(_pl(5), {"k": "discr", "place": _pl(4)})], {"k": "switch", "discr": _move(5), "discr_ty": _ANY, "arms": [["0", 3]], "otherwise": 2}),
        _blk([_asg(_pl(6), {"k": "use", "op": _some_field(4)}), _asg(_pl(7), {"k": "use", "op": _copy(1)})],
             _call("std::vec::Vec::<T, A>::push", [_move(7), _move(6)], 8, 0)),
        _blk([], {"k": "return"}),
    ]
    return _body("__shim::extend_vec", 2, 9, blocks)


SHIMS["__shim::extend_vec"] = _mk_extend_vec_shim()
for _n in ("<std::iter::Once<T> as std::iter::Iterator>::next",):
    MODELS[_n] = _next_dispatch
