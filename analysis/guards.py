"""Turning branch decisions of a variant into interval constraints on expressions (DESIGN 2.2 'guards')."""
from .expr import *

INF = float("inf")


def true_conds(decisions):
    """Yield atomic conditions (E of width 1) known to be true in a variant."""
    out = []

    def add_true(c):
        if c.op == "and" and c.w == 1:
            add_true(c.args[0])
            add_true(c.args[1])
            return
        if c.op == "gamma" and c.w == 1 and len(c.args) == 3 and isinstance(c.args[2], E) and c.args[2].is_const() and c.args[2].val == 0:
            add_true(c.args[0])            # gamma(c, x, false) is c && x
            add_true(c.args[1])
            return
        if c.op == "gamma" and c.w == 1 and len(c.args) == 3 and isinstance(c.args[1], E) and c.args[1].is_const() and c.args[1].val == 0:
            add_true(not_(c.args[0]))      # gamma(c, false, y) is !c && y
            add_true(c.args[2])
            return
        if c.op == "not" and c.args[0].op == "or":
            add_true(not_(c.args[0].args[0]))
            add_true(not_(c.args[0].args[1]))
            return
        out.append(c)

    for d in decisions:
        cond, val = d[0], d[1]
        if cond.w != 1 or not isinstance(val, int):
            continue
        add_true(cond if val == 1 else not_(cond))
    return out


def bounds(decisions):
    """List of (expr, signed, lo, hi) facts implied by the decisions."""
    res = []
    for c in true_conds(decisions):
        if c.op in ("slt", "sle", "sgt", "sge", "ult", "ule", "ugt", "uge", "eq"):
            a, b = c.args
            signed = c.op[0] == "s"
            rel = c.op[1:] if c.op != "eq" else "eq"
            for x, k, flip in ((a, b, False), (b, a, True)):
                if k.is_const() and not x.is_const():
                    kv = to_signed(k.val, k.w) if signed else k.val
                    r = rel
                    if flip:
                        r = {"lt": "gt", "le": "ge", "gt": "lt", "ge": "le", "eq": "eq"}[r]
                    lo, hi = -INF, INF
                    if r == "lt":
                        hi = kv - 1
                    elif r == "le":
                        hi = kv
                    elif r == "gt":
                        lo = kv + 1
                    elif r == "ge":
                        lo = kv
                    elif r == "eq":
                        lo = hi = kv
                        signed = None
                    res.append((x, signed, lo, hi))
                    # |y| <= k  (unsigned compare of unsigned_abs, or signed compare of abs)  =>  y in [-k, k] as a signed value
                    if x.op == "abs_s" and hi != INF and hi >= 0:
                        res.append((x.args[0], True, -hi, hi))
                    if x.op in ("abs_diff", "abs_diff_s") and hi != INF and hi >= 0:
                        d = binop("sub", x.args[0], x.args[1], x.w)
                        res.append((d, True, -hi, hi))
    return res


def same(a, b):
    if a == b:
        return True
    if a.w == b.w and a.w is not None:
        try:
            return affine_equal(a, b, a.w)
        except Exception:
            return False
    return False


def interval_of(expr, decisions, signed=True):
    lo, hi = -INF, INF
    others = []          # [x, lo, hi] for bounded expressions other than expr itself
    for x, s, l, h in bounds(decisions):
        if s is not None and s != signed:
            continue
        if same(x, expr):
            lo = max(lo, l)
            hi = min(hi, h)
        elif signed and x.w == expr.w and x.w:
            for o in others:
                if same(o[0], x):
                    o[1], o[2] = max(o[1], l), min(o[2], h)
                    break
            else:
                others.append([x, l, h])
    for x, l, h in others:
        # expr = x + c (same affine terms): a two-sided bound shifts with it, as long as the shifted interval stays representable
        # (a one-sided bound does not: x + c may wrap at the unbounded end)
        if l == -INF or h == INF:
            continue
        try:
            tx, cx = affine(x, x.w)
            te, ce = affine(expr, expr.w)
        except Exception:
            continue
        if tx and tx == te:
            c = to_signed((ce - cx) & mask(x.w), x.w)
            top = 1 << (x.w - 1)
            if -top <= l + c and h + c < top:
                lo = max(lo, l + c)
                hi = min(hi, h + c)
    return lo, hi


def within(iv, lo, hi):
    return iv[0] >= lo and iv[1] <= hi


def decision_true(decisions, pred):
    """Is there a condition known true that satisfies pred(E)?"""
    return any(pred(c) for c in true_conds(decisions))
