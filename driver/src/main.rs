#![feature(rustc_private)]
// mirfacts: export resolved MIR + ADT/impl/fn/macro facts of a crate as JSON (one file per rustc process).
// All analysis logic lives in /verif/analysis (Python); this exporter is deliberately dumb.
extern crate rustc_abi;
extern crate rustc_ast;
extern crate rustc_ast_pretty;
extern crate rustc_const_eval;
extern crate rustc_driver;
extern crate rustc_hir;
extern crate rustc_interface;
extern crate rustc_middle;
extern crate rustc_span;

use rustc_driver::Compilation;
use rustc_hir::def::DefKind;
use rustc_hir::def_id::{DefId, LOCAL_CRATE};
use rustc_interface::interface::Compiler;
use rustc_middle::mir::interpret::{GlobalAlloc, Scalar};
use rustc_middle::mir::{
    self, AggregateKind, BasicBlock, Body, Const, ConstValue, NonDivergingIntrinsic, Operand,
    Place, ProjectionElem, Rvalue, StatementKind, TerminatorKind, UnwindAction,
};
use rustc_middle::ty::{self, Ty, TyCtxt, TypeVisitableExt, TypingEnv};
use rustc_span::Span;
use std::fmt::Write;

fn esc(s: &str) -> String {
    let mut o = String::with_capacity(s.len() + 2);
    o.push('"');
    for c in s.chars() {
        match c {
            '"' => o.push_str("\\\""),
            '\\' => o.push_str("\\\\"),
            '\n' => o.push_str("\\n"),
            '\r' => o.push_str("\\r"),
            '\t' => o.push_str("\\t"),
            c if (c as u32) < 0x20 => {
                let _ = write!(o, "\\u{:04x}", c as u32);
            }
            c => o.push(c),
        }
    }
    o.push('"');
    o
}

struct Cx<'tcx> {
    tcx: TyCtxt<'tcx>,
}

impl<'tcx> Cx<'tcx> {
    fn span(&self, sp: Span) -> String {
        let sm = self.tcx.sess.source_map();
        let lo = sm.lookup_char_pos(sp.lo());
        let hi = sm.lookup_char_pos(sp.hi());
        let file = format!("{}", lo.file.name.prefer_local_unconditionally());
        let mut s = format!(
            "{{\"file\":{},\"line\":{},\"col\":{},\"eline\":{},\"ecol\":{},\"exp\":{}",
            esc(&file),
            lo.line,
            lo.col.0 + 1,
            hi.line,
            hi.col.0 + 1,
            sp.from_expansion()
        );
        if sp.from_expansion() {
            let cs = sp.source_callsite();
            let clo = sm.lookup_char_pos(cs.lo());
            let _ = write!(
                s,
                ",\"callsite\":{{\"file\":{},\"line\":{},\"col\":{}}}",
                esc(&format!("{}", clo.file.name.prefer_local_unconditionally())),
                clo.line,
                clo.col.0 + 1
            );
        }
        s.push('}');
        s
    }

    fn ty(&self, t: Ty<'tcx>) -> String {
        let s = esc(&format!("{}", t));
        let k = match t.kind() {
            ty::Bool => "\"k\":\"bool\"".to_string(),
            ty::Char => "\"k\":\"char\"".to_string(),
            ty::Int(i) => format!("\"k\":\"int\",\"name\":\"{}\"", i.name_str()),
            ty::Uint(i) => format!("\"k\":\"uint\",\"name\":\"{}\"", i.name_str()),
            ty::Float(f) => format!("\"k\":\"float\",\"name\":\"{}\"", f.name_str()),
            ty::Str => "\"k\":\"str\"".to_string(),
            ty::Never => "\"k\":\"never\"".to_string(),
            ty::Adt(def, args) => format!(
                "\"k\":\"adt\",\"path\":{},\"args\":[{}]",
                esc(&self.tcx.def_path_str(def.did())),
                args.iter().map(|a| self.garg(a)).collect::<Vec<_>>().join(",")
            ),
            ty::Ref(_, inner, m) => {
                format!("\"k\":\"ref\",\"mut\":{},\"inner\":{}", m.is_mut(), self.ty(*inner))
            }
            ty::RawPtr(inner, m) => {
                format!("\"k\":\"ptr\",\"mut\":{},\"inner\":{}", m.is_mut(), self.ty(*inner))
            }
            ty::Array(elem, len) => format!(
                "\"k\":\"array\",\"elem\":{},\"len\":{}",
                self.ty(*elem),
                match len.try_to_target_usize(self.tcx) {
                    Some(n) => n.to_string(),
                    None => esc(&format!("{}", len)),
                }
            ),
            ty::Slice(elem) => format!("\"k\":\"slice\",\"elem\":{}", self.ty(*elem)),
            ty::Tuple(ts) => format!(
                "\"k\":\"tuple\",\"elems\":[{}]",
                ts.iter().map(|t| self.ty(t)).collect::<Vec<_>>().join(",")
            ),
            ty::FnPtr(sig_tys, hdr) => {
                let io = sig_tys.skip_binder();
                format!(
                    "\"k\":\"fnptr\",\"inputs\":[{}],\"output\":{},\"abi\":{},\"unsafe\":{},\"variadic\":{}",
                    io.inputs().iter().map(|t| self.ty(*t)).collect::<Vec<_>>().join(","),
                    self.ty(io.output()),
                    esc(&format!("{}", hdr.abi())),
                    hdr.safety().is_unsafe(),
                    hdr.c_variadic()
                )
            }
            ty::FnDef(did, args) => format!(
                "\"k\":\"fndef\",\"path\":{},\"args\":[{}]",
                esc(&self.tcx.def_path_str(*did)),
                args.iter().map(|a| self.garg(a)).collect::<Vec<_>>().join(",")
            ),
            ty::Closure(did, _) => {
                format!("\"k\":\"closure\",\"path\":{}", esc(&self.tcx.def_path_str(*did)))
            }
            ty::Coroutine(did, _) => {
                format!("\"k\":\"coroutine\",\"path\":{}", esc(&self.tcx.def_path_str(*did)))
            }
            ty::Param(p) => format!("\"k\":\"param\",\"name\":{}", esc(p.name.as_str())),
            ty::Dynamic(..) => "\"k\":\"dyn\"".to_string(),
            _ => "\"k\":\"other\"".to_string(),
        };
        format!("{{\"s\":{},{}}}", s, k)
    }

    fn garg(&self, a: ty::GenericArg<'tcx>) -> String {
        match a.kind() {
            ty::GenericArgKind::Type(t) => format!("{{\"ty\":{}}}", self.ty(t)),
            ty::GenericArgKind::Const(c) => match c.try_to_target_usize(self.tcx) {
                Some(n) => format!("{{\"const\":{}}}", n),
                None => format!("{{\"const\":{}}}", esc(&format!("{}", c))),
            },
            ty::GenericArgKind::Lifetime(_) => "{\"lt\":true}".to_string(),
        }
    }

    fn place(&self, body: &Body<'tcx>, p: &Place<'tcx>) -> String {
        let mut projs = Vec::new();
        for (base, elem) in p.iter_projections() {
            let s = match elem {
                ProjectionElem::Deref => "{\"k\":\"deref\"}".to_string(),
                ProjectionElem::Field(f, fty) => {
                    // field name if ADT
                    let bty = base.ty(&body.local_decls, self.tcx);
                    let name = match bty.ty.kind() {
                        ty::Adt(def, _) => {
                            let v = match bty.variant_index {
                                Some(v) => def.variant(v),
                                None if def.is_struct() || def.is_union() => def.non_enum_variant(),
                                None => def.variant(rustc_abi::VariantIdx::from_u32(0)),
                            };
                            v.fields.get(f).map(|fd| fd.name.to_string())
                        }
                        _ => None,
                    };
                    format!(
                        "{{\"k\":\"field\",\"i\":{},\"name\":{},\"ty\":{}}}",
                        f.as_u32(),
                        name.map(|n| esc(&n)).unwrap_or("null".into()),
                        self.ty(fty)
                    )
                }
                ProjectionElem::Index(l) => format!("{{\"k\":\"index\",\"local\":{}}}", l.as_u32()),
                ProjectionElem::ConstantIndex { offset, min_length, from_end } => format!(
                    "{{\"k\":\"cindex\",\"offset\":{},\"min_length\":{},\"from_end\":{}}}",
                    offset, min_length, from_end
                ),
                ProjectionElem::Subslice { from, to, from_end } => {
                    format!("{{\"k\":\"subslice\",\"from\":{},\"to\":{},\"from_end\":{}}}", from, to, from_end)
                }
                ProjectionElem::Downcast(name, v) => format!(
                    "{{\"k\":\"downcast\",\"variant\":{},\"name\":{}}}",
                    v.as_u32(),
                    name.map(|n| esc(n.as_str())).unwrap_or("null".into())
                ),
                _ => "{\"k\":\"other\"}".to_string(),
            };
            projs.push(s);
        }
        format!("{{\"l\":{},\"p\":[{}]}}", p.local.as_u32(), projs.join(","))
    }

    fn alloc_ref(&self, alloc_id: mir::interpret::AllocId, extra: &str) -> String {
        match self.tcx.try_get_global_alloc(alloc_id) {
            Some(GlobalAlloc::Static(did)) => {
                format!("{{\"k\":\"static\",\"path\":{}{}}}", esc(&self.tcx.def_path_str(did)), extra)
            }
            Some(GlobalAlloc::Function { instance }) => format!(
                "{{\"k\":\"fnaddr\",\"path\":{}{}}}",
                esc(&self.tcx.def_path_str(instance.def_id())),
                extra
            ),
            Some(GlobalAlloc::Memory(a)) => {
                let alloc = a.inner();
                let len = alloc.len();
                let bytes = alloc.inspect_with_uninit_and_ptr_outside_interpreter(0..len);
                let has_ptrs = !alloc.provenance().ptrs().is_empty();
                format!(
                    "{{\"k\":\"mem\",\"bytes\":[{}],\"has_ptrs\":{}{}}}",
                    bytes.iter().map(|b| b.to_string()).collect::<Vec<_>>().join(","),
                    has_ptrs,
                    extra
                )
            }
            _ => format!("{{\"k\":\"alloc_other\"{}}}", extra),
        }
    }

    fn constant(&self, owner: DefId, c: &mir::ConstOperand<'tcx>) -> String {
        let tcx = self.tcx;
        let t = c.const_.ty();
        let tys = self.ty(t);
        // fn items
        if let ty::FnDef(did, args) = t.kind() {
            return format!(
                "{{\"k\":\"fn\",\"path\":{},\"args\":[{}],\"ty\":{}}}",
                esc(&tcx.def_path_str(*did)),
                args.iter().map(|a| self.garg(a)).collect::<Vec<_>>().join(","),
                tys
            );
        }
        let mut uneval = String::new();
        if let Const::Unevaluated(uv, _) = c.const_ {
            let _ = write!(
                uneval,
                ",\"uneval\":{{\"path\":{},\"promoted\":{}}}",
                esc(&tcx.def_path_str(uv.def)),
                uv.promoted.map(|p| p.as_u32().to_string()).unwrap_or("null".into())
            );
        }
        let env = TypingEnv::post_analysis(tcx, owner);
        let val = match c.const_.eval(tcx, env, c.span) {
            Ok(ConstValue::Scalar(Scalar::Int(i))) => {
                let bits = i.to_bits(i.size());
                format!("{{\"k\":\"int\",\"bits\":\"{}\",\"size\":{}}}", bits, i.size().bytes())
            }
            Ok(ConstValue::Scalar(Scalar::Ptr(p, _))) => {
                let (prov, off) = p.into_raw_parts();
                self.alloc_ref(prov.alloc_id(), &format!(",\"offset\":{}", off.bytes()))
            }
            Ok(ConstValue::ZeroSized) => "{\"k\":\"zst\"}".to_string(),
            Ok(ConstValue::Slice { alloc_id, meta }) => {
                self.alloc_ref(alloc_id, &format!(",\"slice_len\":{}", meta))
            }
            Ok(ConstValue::Indirect { alloc_id, offset }) => {
                self.alloc_ref(alloc_id, &format!(",\"offset\":{}", offset.bytes()))
            }
            Err(_) => "{\"k\":\"unevaluable\"}".to_string(),
        };
        format!("{{\"k\":\"const\",\"ty\":{},\"val\":{}{},\"s\":{}}}", tys, val, uneval, esc(&format!("{}", c.const_)))
    }

    fn operand(&self, owner: DefId, body: &Body<'tcx>, o: &Operand<'tcx>) -> String {
        match o {
            Operand::Copy(p) => format!("{{\"k\":\"copy\",\"place\":{}}}", self.place(body, p)),
            Operand::Move(p) => format!("{{\"k\":\"move\",\"place\":{}}}", self.place(body, p)),
            Operand::Constant(c) => self.constant(owner, c),
            _ => "{\"k\":\"runtime_checks\"}".to_string(),
        }
    }

    fn rvalue(&self, owner: DefId, body: &Body<'tcx>, rv: &Rvalue<'tcx>) -> String {
        let op = |o: &Operand<'tcx>| self.operand(owner, body, o);
        match rv {
            Rvalue::Use(o, _) => format!("{{\"k\":\"use\",\"op\":{}}}", op(o)),
            Rvalue::Repeat(o, n) => format!(
                "{{\"k\":\"repeat\",\"op\":{},\"count\":{}}}",
                op(o),
                match n.try_to_target_usize(self.tcx) {
                    Some(v) => v.to_string(),
                    None => esc(&format!("{}", n)),
                }
            ),
            Rvalue::Ref(_, bk, p) => format!(
                "{{\"k\":\"ref\",\"mut\":{},\"place\":{}}}",
                matches!(bk, mir::BorrowKind::Mut { .. }),
                self.place(body, p)
            ),
            Rvalue::RawPtr(k, p) => format!(
                "{{\"k\":\"rawptr\",\"mut\":{},\"place\":{}}}",
                matches!(k, mir::RawPtrKind::Mut),
                self.place(body, p)
            ),
            Rvalue::Cast(kind, o, t) => format!(
                "{{\"k\":\"cast\",\"kind\":{},\"op\":{},\"ty\":{}}}",
                esc(&format!("{:?}", kind)),
                op(o),
                self.ty(*t)
            ),
            Rvalue::BinaryOp(b, ops) => format!(
                "{{\"k\":\"binop\",\"op\":\"{:?}\",\"a\":{},\"b\":{}}}",
                b,
                op(&ops.0),
                op(&ops.1)
            ),
            Rvalue::UnaryOp(u, o) => format!("{{\"k\":\"unop\",\"op\":\"{:?}\",\"a\":{}}}", u, op(o)),
            Rvalue::Discriminant(p) => format!("{{\"k\":\"discr\",\"place\":{}}}", self.place(body, p)),
            Rvalue::Aggregate(ak, ops) => {
                let kind = match &**ak {
                    AggregateKind::Array(t) => format!("{{\"k\":\"array\",\"elem\":{}}}", self.ty(*t)),
                    AggregateKind::Tuple => "{\"k\":\"tuple\"}".to_string(),
                    AggregateKind::Adt(did, v, args, _, _) => {
                        let def = self.tcx.adt_def(*did);
                        let var = def.variant(*v);
                        format!(
                            "{{\"k\":\"adt\",\"path\":{},\"variant\":{},\"variant_name\":{},\"fields\":[{}],\"args\":[{}]}}",
                            esc(&self.tcx.def_path_str(*did)),
                            v.as_u32(),
                            esc(var.name.as_str()),
                            var.fields.iter().map(|f| esc(f.name.as_str())).collect::<Vec<_>>().join(","),
                            args.iter().map(|a| self.garg(a)).collect::<Vec<_>>().join(",")
                        )
                    }
                    AggregateKind::Closure(did, _) => {
                        format!("{{\"k\":\"closure\",\"path\":{}}}", esc(&self.tcx.def_path_str(*did)))
                    }
                    AggregateKind::RawPtr(t, m) => {
                        format!("{{\"k\":\"rawptr\",\"ty\":{},\"mut\":{}}}", self.ty(*t), m.is_mut())
                    }
                    _ => "{\"k\":\"other\"}".to_string(),
                };
                format!(
                    "{{\"k\":\"aggregate\",\"kind\":{},\"ops\":[{}]}}",
                    kind,
                    ops.iter().map(|o| op(o)).collect::<Vec<_>>().join(",")
                )
            }
            Rvalue::CopyForDeref(p) => format!("{{\"k\":\"copy_for_deref\",\"place\":{}}}", self.place(body, p)),
            Rvalue::ThreadLocalRef(d) => {
                format!("{{\"k\":\"tls\",\"path\":{}}}", esc(&self.tcx.def_path_str(*d)))
            }
            _ => format!("{{\"k\":\"other\",\"s\":{}}}", esc(&format!("{:?}", rv))),
        }
    }

    fn unwind(&self, u: &UnwindAction) -> String {
        match u {
            UnwindAction::Continue => "\"continue\"".into(),
            UnwindAction::Unreachable => "\"unreachable\"".into(),
            UnwindAction::Terminate(_) => "\"terminate\"".into(),
            UnwindAction::Cleanup(bb) => format!("{}", bb.as_u32()),
        }
    }

    fn bbopt(&self, b: &Option<BasicBlock>) -> String {
        b.map(|b| b.as_u32().to_string()).unwrap_or("null".into())
    }

    fn body(&self, did: DefId, body: &Body<'tcx>, promoted: Option<u32>) -> String {
        let tcx = self.tcx;
        let mut s = String::new();
        let _ = write!(
            s,
            "{{\"path\":{},\"promoted\":{},\"def_kind\":{},\"span\":{},\"arg_count\":{},",
            esc(&tcx.def_path_str(did)),
            promoted.map(|p| p.to_string()).unwrap_or("null".into()),
            esc(&format!("{:?}", tcx.def_kind(did))),
            self.span(tcx.def_span(did)),
            body.arg_count
        );
        // locals
        s.push_str("\"locals\":[");
        for (i, (_l, d)) in body.local_decls.iter_enumerated().enumerate() {
            if i > 0 {
                s.push(',');
            }
            let _ = write!(s, "{{\"ty\":{}}}", self.ty(d.ty));
        }
        s.push_str("],\"debug\":[");
        let mut first = true;
        for vdi in &body.var_debug_info {
            if let mir::VarDebugInfoContents::Place(p) = &vdi.value {
                if !first {
                    s.push(',');
                }
                first = false;
                let _ = write!(s, "{{\"name\":{},\"place\":{}}}", esc(vdi.name.as_str()), self.place(body, p));
            }
        }
        s.push_str("],\"blocks\":[");
        for (bi, (_bb, data)) in body.basic_blocks.iter_enumerated().enumerate() {
            if bi > 0 {
                s.push(',');
            }
            let _ = write!(s, "{{\"cleanup\":{},\"stmts\":[", data.is_cleanup);
            let mut firsts = true;
            for st in &data.statements {
                let js = match &st.kind {
                    StatementKind::Assign(b) => Some(format!(
                        "{{\"k\":\"assign\",\"place\":{},\"rv\":{},\"span\":{}}}",
                        self.place(body, &b.0),
                        self.rvalue(did, body, &b.1),
                        self.span(st.source_info.span)
                    )),
                    StatementKind::SetDiscriminant { place, variant_index } => Some(format!(
                        "{{\"k\":\"set_discr\",\"place\":{},\"variant\":{}}}",
                        self.place(body, place),
                        variant_index.as_u32()
                    )),
                    StatementKind::Intrinsic(i) => match &**i {
                        NonDivergingIntrinsic::CopyNonOverlapping(c) => Some(format!(
                            "{{\"k\":\"copy_nonoverlapping\",\"src\":{},\"dst\":{},\"count\":{},\"span\":{}}}",
                            self.operand(did, body, &c.src),
                            self.operand(did, body, &c.dst),
                            self.operand(did, body, &c.count),
                            self.span(st.source_info.span)
                        )),
                        NonDivergingIntrinsic::Assume(_) => None,
                    },
                    _ => None,
                };
                if let Some(js) = js {
                    if !firsts {
                        s.push(',');
                    }
                    firsts = false;
                    s.push_str(&js);
                }
            }
            s.push_str("],\"term\":");
            let term = data.terminator();
            let tspan = self.span(term.source_info.span);
            let tj = match &term.kind {
                TerminatorKind::Goto { target } => format!("{{\"k\":\"goto\",\"target\":{}}}", target.as_u32()),
                TerminatorKind::SwitchInt { discr, targets } => {
                    let arms: Vec<String> =
                        targets.iter().map(|(v, bb)| format!("[\"{}\",{}]", v, bb.as_u32())).collect();
                    format!(
                        "{{\"k\":\"switch\",\"discr\":{},\"discr_ty\":{},\"arms\":[{}],\"otherwise\":{}}}",
                        self.operand(did, body, discr),
                        self.ty(discr.ty(&body.local_decls, tcx)),
                        arms.join(","),
                        targets.otherwise().as_u32()
                    )
                }
                TerminatorKind::Return => "{\"k\":\"return\"}".to_string(),
                TerminatorKind::Unreachable => "{\"k\":\"unreachable\"}".to_string(),
                TerminatorKind::UnwindResume => "{\"k\":\"resume\"}".to_string(),
                TerminatorKind::UnwindTerminate(_) => "{\"k\":\"terminate\"}".to_string(),
                TerminatorKind::Drop { place, target, unwind, .. } => format!(
                    "{{\"k\":\"drop\",\"place\":{},\"ty\":{},\"target\":{},\"unwind\":{},\"span\":{}}}",
                    self.place(body, place),
                    self.ty(place.ty(&body.local_decls, tcx).ty),
                    target.as_u32(),
                    self.unwind(unwind),
                    tspan
                ),
                TerminatorKind::Call { func, args, destination, target, unwind, .. } => {
                    let fty = func.ty(&body.local_decls, tcx);
                    let callee = match fty.kind() {
                        ty::FnDef(cd, ga) => {
                            let env = TypingEnv::post_analysis(tcx, did);
                            let mut resolved = String::from("null");
                            if let Ok(Some(inst)) = ty::Instance::try_resolve(tcx, env, *cd, ga) {
                                let rd = inst.def_id();
                                resolved = format!(
                                    "{{\"path\":{},\"args\":[{}],\"kind\":{},\"local\":{}}}",
                                    esc(&tcx.def_path_str(rd)),
                                    inst.args.iter().map(|a| self.garg(a)).collect::<Vec<_>>().join(","),
                                    esc(&format!("{:?}", inst.def).split('(').next().unwrap_or("").to_string()),
                                    rd.is_local()
                                );
                            }
                            let mut tnames = String::new();
                            {
                                let p = tcx.def_path_str(*cd);
                                if p == "std::any::type_name_of_val" || p == "std::any::type_name" {
                                    let v: Vec<String> = ga
                                        .iter()
                                        .filter_map(|a| match a.kind() {
                                            ty::GenericArgKind::Type(t) if !t.has_non_region_param() => {
                                                Some(esc(&rustc_const_eval::util::type_name(tcx, t)))
                                            }
                                            _ => None,
                                        })
                                        .collect();
                                    tnames = format!(",\"type_names\":[{}]", v.join(","));
                                }
                            }
                            let sig = tcx.fn_sig(*cd).instantiate(tcx, ga).skip_norm_wip();
                            format!(
                                "{{\"k\":\"def\",\"path\":{},\"args\":[{}],\"local\":{},\"foreign\":{},\"abi\":{},\"diverges\":{},\"intrinsic\":{},\"resolved\":{}{}}}",
                                esc(&tcx.def_path_str(*cd)),
                                ga.iter().map(|a| self.garg(a)).collect::<Vec<_>>().join(","),
                                cd.is_local(),
                                tcx.is_foreign_item(*cd),
                                esc(&format!("{}", sig.abi())),
                                sig.output().skip_binder().is_never(),
                                tcx.intrinsic(*cd).is_some(),
                                resolved,
                                tnames
                            )
                        }
                        _ => format!("{{\"k\":\"indirect\",\"op\":{},\"ty\":{}}}", self.operand(did, body, func), self.ty(fty)),
                    };
                    format!(
                        "{{\"k\":\"call\",\"callee\":{},\"args\":[{}],\"dest\":{},\"target\":{},\"unwind\":{},\"span\":{}}}",
                        callee,
                        args.iter().map(|a| self.operand(did, body, &a.node)).collect::<Vec<_>>().join(","),
                        self.place(body, destination),
                        self.bbopt(target),
                        self.unwind(unwind),
                        tspan
                    )
                }
                TerminatorKind::Assert { cond, expected, msg, target, unwind } => format!(
                    "{{\"k\":\"assert\",\"cond\":{},\"expected\":{},\"msg\":{},\"target\":{},\"unwind\":{}}}",
                    self.operand(did, body, cond),
                    expected,
                    esc(&format!("{:?}", msg).split('(').next().unwrap_or("").to_string()),
                    target.as_u32(),
                    self.unwind(unwind)
                ),
                TerminatorKind::InlineAsm { template, targets, unwind, .. } => format!(
                    "{{\"k\":\"asm\",\"template\":{},\"targets\":[{}],\"unwind\":{},\"span\":{}}}",
                    esc(&rustc_ast::InlineAsmTemplatePiece::to_string(template)),
                    targets.iter().map(|t| t.as_u32().to_string()).collect::<Vec<_>>().join(","),
                    self.unwind(unwind),
                    tspan
                ),
                TerminatorKind::FalseEdge { real_target, .. } => {
                    format!("{{\"k\":\"goto\",\"target\":{}}}", real_target.as_u32())
                }
                TerminatorKind::FalseUnwind { real_target, .. } => {
                    format!("{{\"k\":\"goto\",\"target\":{}}}", real_target.as_u32())
                }
                other => format!("{{\"k\":\"other\",\"s\":{}}}", esc(&format!("{:?}", other))),
            };
            s.push_str(&tj);
            s.push('}');
        }
        s.push_str("]}");
        s
    }
}


impl<'tcx> Cx<'tcx> {
    fn tts(&self, ts: &rustc_ast::tokenstream::TokenStream) -> String {
        use rustc_ast::tokenstream::TokenTree;
        let sm = self.tcx.sess.source_map();
        let mut v = Vec::new();
        for tt in ts.iter() {
            match tt {
                TokenTree::Token(tok, spacing) => {
                    let lo = sm.lookup_char_pos(tok.span.lo());
                    v.push(format!(
                        "{{\"t\":\"tok\",\"s\":{},\"kind\":{},\"line\":{},\"col\":{},\"joint\":{}}}",
                        esc(&rustc_ast_pretty::pprust::token_to_string(tok)),
                        esc(&format!("{:?}", tok.kind).split('(').next().unwrap_or("").to_string()),
                        lo.line,
                        lo.col.0 + 1,
                        matches!(spacing, rustc_ast::tokenstream::Spacing::Joint)
                    ));
                }
                TokenTree::Delimited(dspan, _, delim, inner) => {
                    let lo = sm.lookup_char_pos(dspan.open.lo());
                    let hi = sm.lookup_char_pos(dspan.close.hi());
                    v.push(format!(
                        "{{\"t\":\"group\",\"d\":{},\"line\":{},\"col\":{},\"eline\":{},\"ecol\":{},\"tts\":{}}}",
                        esc(&format!("{:?}", delim)),
                        lo.line,
                        lo.col.0 + 1,
                        hi.line,
                        hi.col.0 + 1,
                        self.tts(inner)
                    ));
                }
            }
        }
        format!("[{}]", v.join(","))
    }

    fn fn_fact(&self, did: DefId) -> String {
        let tcx = self.tcx;
        let sig = tcx.fn_sig(did).instantiate_identity().skip_norm_wip();
        let io = sig.skip_binder();
        let ldid = did.expect_local();
        let ev = tcx.effective_visibilities(());
        let parent = tcx.parent(did);
        let mut impl_of = String::from("null");
        if matches!(tcx.def_kind(parent), DefKind::Impl { .. }) {
            let self_ty = tcx.type_of(parent).instantiate_identity().skip_norm_wip();
            let tr = tcx
                .impl_opt_trait_ref(parent)
                .map(|t| esc(&tcx.def_path_str(t.instantiate_identity().skip_norm_wip().def_id)))
                .unwrap_or("null".into());
            impl_of = format!("{{\"self_ty\":{},\"trait\":{}}}", self.ty(self_ty), tr);
        }
        format!(
            "{{\"path\":{},\"vis\":{},\"reachable\":{},\"exported\":{},\"unsafe\":{},\"abi\":{},\"inputs\":[{}],\"output\":{},\"impl_of\":{},\"span\":{},\"generics\":[{}]}}",
            esc(&tcx.def_path_str(did)),
            esc(&format!("{:?}", tcx.visibility(did))),
            ev.is_reachable(ldid),
            ev.is_exported(ldid),
            io.safety().is_unsafe(),
            esc(&format!("{}", io.abi())),
            io.inputs().iter().map(|t| self.ty(*t)).collect::<Vec<_>>().join(","),
            self.ty(io.output()),
            impl_of,
            self.span(tcx.def_span(did)),
            {
                let g = tcx.generics_of(did);
                (0..g.count()).map(|i| esc(g.param_at(i, tcx).name.as_str())).collect::<Vec<_>>().join(",")
            }
        )
    }
}

struct Cb;
impl rustc_driver::Callbacks for Cb {
    fn after_analysis<'tcx>(&mut self, _c: &Compiler, tcx: TyCtxt<'tcx>) -> Compilation {
        let krate = tcx.crate_name(LOCAL_CRATE);
        let wanted = std::env::var("MIRFACTS_CRATES")
            .map(|s| s.split(',').any(|x| x == krate.as_str()))
            .unwrap_or(false);
        if !wanted {
            return Compilation::Continue;
        }
        let cx = Cx { tcx };
        let mut out = String::new();
        let _ = write!(
            out,
            "{{\"crate\":{},\"target\":{},\"pointer_width\":{},\"bodies\":[",
            esc(krate.as_str()),
            esc(&tcx.sess.opts.target_triple.to_string()),
            tcx.data_layout.pointer_size().bits()
        );
        let mut first = true;
        for ldid in tcx.hir_body_owners() {
            let did = ldid.to_def_id();
            let kind = tcx.def_kind(did);
            let body: &Body<'tcx> = match kind {
                DefKind::Fn | DefKind::AssocFn | DefKind::Closure => tcx.optimized_mir(did),
                DefKind::Const { .. } | DefKind::AssocConst { .. } | DefKind::Static { .. } | DefKind::AnonConst | DefKind::InlineConst => {
                    tcx.mir_for_ctfe(did)
                }
                _ => continue,
            };
            if !first {
                out.push(',');
            }
            first = false;
            out.push_str(&cx.body(did, body, None));
            if matches!(kind, DefKind::Fn | DefKind::AssocFn | DefKind::Closure) {
                for (pi, pb) in tcx.promoted_mir(did).iter_enumerated() {
                    out.push(',');
                    out.push_str(&cx.body(did, pb, Some(pi.as_u32())));
                }
            }
        }
        out.push_str("],\"adts\":[");
        // ADTs + Drop impls
        let mut first = true;
        for id in tcx.hir_free_items() {
            let did = id.owner_id.to_def_id();
            match tcx.def_kind(did) {
                DefKind::Struct | DefKind::Enum | DefKind::Union => {
                    let def = tcx.adt_def(did);
                    if !first {
                        out.push(',');
                    }
                    first = false;
                    let _ = write!(
                        out,
                        "{{\"path\":{},\"vis\":{},\"has_dtor\":{},\"variants\":[",
                        esc(&tcx.def_path_str(did)),
                        esc(&format!("{:?}", tcx.visibility(did))),
                        def.destructor(tcx).map(|d| esc(&tcx.def_path_str(d.did))).unwrap_or("null".into())
                    );
                    for (vi, v) in def.variants().iter().enumerate() {
                        if vi > 0 {
                            out.push(',');
                        }
                        // explicit discriminant values (`enum E { A = 2, B = 3 }`): `discriminant(x)` / `x as u32` yield these, not the index
                        let dval = if def.is_enum() {
                            format!("{}", def.discriminant_for_variant(tcx, rustc_abi::VariantIdx::from_usize(vi)).val)
                        } else {
                            "null".to_string()
                        };
                        let _ = write!(out, "{{\"name\":{},\"discr\":{},\"fields\":[", esc(v.name.as_str()), dval);
                        for (fi, f) in v.fields.iter().enumerate() {
                            if fi > 0 {
                                out.push(',');
                            }
                            let fty = tcx.type_of(f.did).instantiate_identity().skip_norm_wip();
                            let _ = write!(
                                out,
                                "{{\"name\":{},\"ty\":{},\"vis\":{}}}",
                                esc(f.name.as_str()),
                                cx.ty(fty),
                                esc(&format!("{:?}", f.vis))
                            );
                        }
                        out.push_str("]}");
                    }
                    out.push_str("]}");
                }
                _ => {}
            }
        }
        out.push_str("],\"macros\":[");
        let mut first = true;
        for id in tcx.hir_free_items() {
            let item = tcx.hir_item(id);
            if let rustc_hir::ItemKind::Macro(ident, mdef, _) = &item.kind {
                if !first {
                    out.push(',');
                }
                first = false;
                let ts = &mdef.body.tokens;
                let _ = write!(
                    out,
                    "{{\"name\":{},\"span\":{},\"ntokens\":{},\"tts\":{}}}",
                    esc(ident.as_str()),
                    cx.span(item.span),
                    ts.len(),
                    cx.tts(ts)
                );
            }
        }
        out.push_str("],\"fns\":[");
        let mut first = true;
        for ldid in tcx.hir_body_owners() {
            let did = ldid.to_def_id();
            if matches!(tcx.def_kind(did), DefKind::Fn | DefKind::AssocFn) {
                if !first {
                    out.push(',');
                }
                first = false;
                out.push_str(&cx.fn_fact(did));
            }
        }
        out.push_str("],\"impls\":[");
        let mut first = true;
        for id in tcx.hir_free_items() {
            let did = id.owner_id.to_def_id();
            if matches!(tcx.def_kind(did), DefKind::Impl { .. }) {
                if !first {
                    out.push(',');
                }
                first = false;
                let self_ty = tcx.type_of(did).instantiate_identity().skip_norm_wip();
                let tr = tcx
                    .impl_opt_trait_ref(did)
                    .map(|t| esc(&tcx.def_path_str(t.instantiate_identity().skip_norm_wip().def_id)))
                    .unwrap_or("null".into());
                let _ = write!(
                    out,
                    "{{\"self_ty\":{},\"trait\":{},\"span\":{}}}",
                    cx.ty(self_ty),
                    tr,
                    cx.span(tcx.def_span(did))
                );
            }
        }
        out.push_str("],\"foreign\":[");
        let mut first = true;
        for id in tcx.hir_crate_items(()).foreign_items() {
            let did = id.owner_id.to_def_id();
            if !first {
                out.push(',');
            }
            first = false;
            let _ = write!(
                out,
                "{{\"path\":{},\"kind\":{},\"span\":{}}}",
                esc(&tcx.def_path_str(did)),
                esc(&format!("{:?}", tcx.def_kind(did))),
                cx.span(tcx.def_span(did))
            );
        }
        out.push_str("]}");
        let path = std::env::var("MIRFACTS_OUT").unwrap_or("/tmp/mirfacts".into());
        let path = format!("{}.{}.{}.json", path, krate, std::process::id());
        std::fs::write(path, out).unwrap();
        Compilation::Continue
    }
}

fn main() {
    let mut args: Vec<String> = std::env::args().collect();
    if args.len() > 1 && args[1].ends_with("rustc") {
        args.remove(1);
    }
    rustc_driver::run_compiler(&args, &mut Cb);
}
